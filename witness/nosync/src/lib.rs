//! Witnesses without feature `sync`: values use `Rc` and must not cross threads, while the
//! compiled filter (which contains no values of the run) is still `Send + Sync`.
use jaq_core::data::JustLut;
use jaq_json::Val;

fn send_sync<T: Send + Sync>() {}

/// The native table consists of plain function pointers: thread-safe whatever the value type.
pub const WITNESS_PASS: fn() = || {
    send_sync::<jaq_core::Native<JustLut<Val>>>();
    send_sync::<jaq_core::compile::TermId>();
    send_sync::<jaq_core::Filter<JustLut<Val>>>();
};

/// Without `sync`, values are not `Send` (this shows that the `sync` witnesses test something).
///
/// ```compile_fail,E0277
/// fn send<T: Send>() {}
/// send::<jaq_json::Val>();
/// ```
///
/// Twin (compiles):
/// ```no_run
/// fn send<T: Send>() {}
/// send::<jaq_core::compile::TermId>();
/// ```
pub struct ValIsNotSendWithoutSync;
