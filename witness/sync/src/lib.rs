//! Type-level witnesses for C19 (decided by the type checker; nothing of jaq is executed).
//!
//! jaq-json is built with feature `sync` here (values use `Arc`).
//!
//! Compile-pass witnesses are the `const _` items below: if any of the listed types stops
//! being `Send + Sync`, this crate no longer builds.
//!
//! Compile-fail witnesses are doc-tests with a compiling twin each (the twin differs only in
//! the offending type, so a witness whose path is merely wrong cannot pass).
use jaq_core::data::JustLut;
use jaq_json::Val;

fn send_sync<T: Send + Sync>() {}
fn unpin_static<T: 'static>() {}

/// W19.1 compile-pass: the compiled filter and everything it consists of is `Send + Sync`.
pub const WITNESS_PASS: fn() = || {
    // the compiled filter as the library hands it out (value type = jaq_json::Val)
    send_sync::<jaq_core::Filter<JustLut<Val>>>();
    send_sync::<jaq_core::Lut<JustLut<Val>>>();
    send_sync::<jaq_core::Native<JustLut<Val>>>();
    // the compiled filter of the command line / jaq-all (data kind with inputs)
    send_sync::<jaq_all::data::Filter>();
    send_sync::<jaq_core::Lut<jaq_all::data::DataKind>>();
    send_sync::<jaq_core::Native<jaq_all::data::DataKind>>();
    // the parts of the term table
    send_sync::<jaq_core::compile::TermId>();
    send_sync::<jaq_core::compile::Lut<jaq_core::Native<JustLut<Val>>>>();
    send_sync::<jaq_core::compile::Filter<jaq_core::Native<JustLut<Val>>>>();
    send_sync::<jaq_core::path::Path<jaq_core::compile::TermId>>();
    send_sync::<jaq_core::ops::Math>();
    send_sync::<jaq_core::ops::Cmp>();
    // values in their thread-safe representation, and errors carrying them
    send_sync::<Val>();
    send_sync::<jaq_json::Num>();
    send_sync::<jaq_json::Map>();
    send_sync::<jaq_core::Error<Val>>();
    // the filter owns its data ('static): it can be moved into a spawned thread
    unpin_static::<jaq_core::Filter<JustLut<Val>>>();
    unpin_static::<jaq_all::data::Filter>();
};

/// A filter can be shared by reference between scoped threads (type-checks only).
pub fn share_between_threads(f: &jaq_core::Filter<JustLut<Val>>) {
    std::thread::scope(|s| {
        s.spawn(|| {
            let _ = &f.lut;
        });
        s.spawn(|| {
            let _ = &f.lut;
        });
    });
}

/// Execution contexts are per thread: `Ctx` is not `Send`.
///
/// ```compile_fail,E0277
/// fn send<T: Send>() {}
/// send::<jaq_core::Ctx<'static, jaq_core::data::JustLut<jaq_json::Val>>>();
/// ```
///
/// Twin (compiles): the filter itself is `Send`.
/// ```no_run
/// fn send<T: Send>() {}
/// send::<jaq_core::Filter<jaq_core::data::JustLut<jaq_json::Val>>>();
/// ```
pub struct CtxIsPerThread;

/// Variable bindings are per thread: `Vars` is not `Send` even for thread-safe values.
///
/// ```compile_fail,E0277
/// fn send<T: Send>() {}
/// send::<jaq_core::Vars<jaq_json::Val>>();
/// ```
///
/// Twin (compiles):
/// ```no_run
/// fn send<T: Send>() {}
/// send::<jaq_json::Val>();
/// ```
pub struct VarsArePerThread;

/// The term table cannot be mutated through a shared filter.
///
/// ```compile_fail,E0596
/// fn f(filter: &jaq_core::Filter<jaq_core::data::JustLut<jaq_json::Val>>) {
///     let lut: &mut jaq_core::Lut<jaq_core::data::JustLut<jaq_json::Val>> = &mut filter.lut;
///     let _ = lut;
/// }
/// ```
///
/// Twin (compiles): reading it is fine.
/// ```no_run
/// fn f(filter: &jaq_core::Filter<jaq_core::data::JustLut<jaq_json::Val>>) {
///     let lut: &jaq_core::Lut<jaq_core::data::JustLut<jaq_json::Val>> = &filter.lut;
///     let _ = lut;
/// }
/// ```
pub struct LutIsReadOnlyWhenShared;

/// Running a filter needs only `&self` of the term id and a shared LUT (no `&mut`).
/// ```no_run
/// fn f<'a>(filter: &'a jaq_core::Filter<jaq_core::data::JustLut<jaq_json::Val>>, v: jaq_json::Val) {
///     let ctx = jaq_core::Ctx::<jaq_core::data::JustLut<jaq_json::Val>>::new(&filter.lut, jaq_core::Vars::new([]));
///     let _ = filter.id.run((ctx, v));
/// }
/// ```
pub struct RunTakesSharedRefs;
