"""C09 table clauses: result-kind tables of the operators on numbers, dispatch tables of the operators on
values, representation independence of integer consumers."""
import re

from common import Rule
from hirtab import ANY, C, L, T, adt_variants, callees, candidates, top_match
from hirutil import find, strip, walk

NUM = "jaq_json::num::Num"
VAL = "jaq_json::Val"
OPS = {"Add": "+", "Sub": "-", "Mul": "*", "Div": "/", "Rem": "%"}
INTS = {"Int", "BigInt"}


def nval(facts, n):
    k = dict(adt_variants(facts, NUM))[n]
    return C(f"{NUM}::{n}", *([ANY] * k))


def vval(facts, n, inner=None):
    k = dict(adt_variants(facts, VAL))[n]
    if n == "Num" and inner is not None:
        return C(f"{VAL}::Num", inner)
    return C(f"{VAL}::{n}", *([ANY] * k))


def whole_operand_bindings(pat):
    """binding id -> operand position (0/1) for bindings that bind a whole operand of a `(l, r)` pattern."""
    out = {}
    pats = pat["pats"] if pat["k"] == "Or" else [pat]
    for p in pats:
        if p["k"] == "Tuple":
            for i, sp in enumerate(p["pats"]):
                if sp["k"] == "Bind" and not sp.get("sub"):
                    out[sp["id"]] = i
    return out


def rules(facts):
    out = []
    kinds = [n for n, k in adt_variants(facts, NUM) or []]

    # ---------------- T9.2 result kinds on numbers
    t2 = Rule("T9.2", "result-kind tables of + - * / % on numbers over the 4x4 representation pairs: the result is an integer exactly when both operands are integers (machine or big) and the operator is one of + - * %; `/` is always a float; decimals behave as floats", floor=80)
    for tr, sym in OPS.items():
        fn = facts.hir_fn(f"<{NUM} as core::ops::arith::{tr}>::{tr.lower()}")
        m = top_match(fn) if fn else None
        if m is None:
            t2.missing_anchor(f"impl {tr} for Num")
            continue
        memo = {}

        def kind_of(a, b, depth=0):
            if (a, b) in memo:
                return memo[(a, b)]
            if depth > 6:
                return None
            cs = candidates(m["arms"], T(nval(facts, a), nval(facts, b)))
            cs = [c for c in cs if c[1] != "guard"] or cs
            if not cs or cs[0][1] != "sure":
                return None
            arm = m["arms"][cs[0][0]]
            body = strip(arm["body"])
            # an arm that calls a closure literal on the spot (e.g. a macro parameter) is classified by the closure's body
            while body.get("k") == "Call" and strip(body["f"]).get("k") == "Closure":
                cb = strip(body["f"]).get("body")
                if not isinstance(cb, dict):
                    break
                body = strip(cb)
            binds = whole_operand_bindings(arm["pat"])
            r = None
            cl = callees(body)
            if body.get("k") == "Binary" and body.get("overloaded") and body["overloaded"].endswith(f"::{tr}::{tr.lower()}"):
                def side(e):
                    e = strip(e)
                    if e.get("k") == "Call":
                        d = (strip(e["f"]).get("path") or {}).get("def") or ""
                        if d == f"{NUM}::Float" or d.endswith("from_dec_str"):
                            return "Float"
                    if e.get("k") == "Path" and e["path"].get("id") in binds:
                        return (a, b)[binds[e["path"]["id"]]]
                    return None
                sa, sb = side(body["l"]), side(body["r"])
                if sa and sb and (sa, sb) != (a, b):
                    r = kind_of(sa, sb, depth + 1)
            elif body.get("k") == "Call":
                d = (strip(body["f"]).get("path") or {}).get("def") or ""
                if d == f"{NUM}::Float":
                    r = "float"
                elif d in (f"{NUM}::Int", f"{NUM}::BigInt") or d.endswith("::int_or_big") or d.endswith("::big_int"):
                    r = "integer"
            memo[(a, b)] = r
            return r
        for a in kinds:
            for b in kinds:
                got = kind_of(a, b)
                want = "integer" if (a in INTS and b in INTS and tr != "Div") else "float"
                t2.examined((tr, a, b), True, {"op": sym, "operands": [a, b], "result": got})
                if got != want:
                    t2.violate(f"{tr}/{a}/{b}", f"`{a} {sym} {b}` yields {got or 'an undetermined kind'}, the manual says {want}", where=fn["sp"])
        # integer arms must use the checked form with big-integer fallback
        if tr in ("Add", "Sub", "Mul"):
            cs = candidates(m["arms"], T(nval(facts, "Int"), nval(facts, "Int")))
            body = m["arms"][cs[0][0]]["body"] if cs else {}
            cl = callees(body)
            ok = any(re.search(rf"::checked_{tr.lower()}$", c) for c in cl) and any(c.endswith("::int_or_big") for c in cl)
            t2.examined((tr, "checked"), True, {"op": sym, "machine_ints_checked_with_big_fallback": ok})
            if not ok:
                t2.violate(f"{tr}/checked", f"machine integers are not combined with checked_{tr.lower()} and a big-integer fallback", where=fn["sp"])
    # every arm computes from both operands (no arm returns one operand unchanged or ignores the other)
    for tr, sym in OPS.items():
        fn = facts.hir_fn(f"<{NUM} as core::ops::arith::{tr}>::{tr.lower()}")
        m = top_match(fn) if fn else None
        if m is None:
            continue
        for a in m["arms"]:
            alts = a["pat"]["pats"] if a["pat"]["k"] == "Or" else [a["pat"]]
            used = {n["path"]["id"] for n in find(a["body"], lambda n: n.get("k") == "Path" and "local" in n["path"])}
            ok = True
            for alt in alts:
                if alt["k"] != "Tuple" or len(alt["pats"]) != 2:
                    continue
                for side in alt["pats"]:
                    ids = {b["id"] for b in find(side, lambda n: n.get("k") == "Bind")}
                    has_payload = side["k"] in ("Bind",) or bool(ids)
                    if not ids or not (ids & used):
                        ok = False
            lit_pat = bool(find(a["pat"], lambda n: n.get("k") == "Lit"))
            t2.examined((tr, "operands-used", a["sp"]), True)
            if not ok or lit_pat:
                t2.violate(f"{tr}/operand-ignored", f"an arm of `{sym}` on numbers " + ("special-cases a literal operand value" if lit_pat else "does not use both operands") + ": the result would not be the arithmetic result for every value of the ignored operand", where=a["sp"])
    out.append(t2.finish())

    # ---------------- T9.3 operator dispatch on values
    t3 = Rule("T9.3", "dispatch tables of + - * / % on values over the 7x7 variant pairs: exactly the documented non-numeric cases are defined (null neutral for +; string and array concatenation; object union and recursive merge; string repetition; array difference; string splitting), everything else is a math error; % guards integer zero", floor=240)
    variants = [n for n, k in adt_variants(facts, VAL) or []]
    S = {"BStr", "TStr"}
    def defined(tr, a, b):
        if a == "Num" and b == "Num":
            return True
        if tr == "Add":
            return a == "Null" or b == "Null" or (a == b and a in ("BStr", "TStr", "Arr", "Obj"))
        if tr == "Sub":
            return a == b == "Arr"
        if tr == "Mul":
            return (a in S and b == "Num") or (a == "Num" and b in S) or a == b == "Obj"
        if tr == "Div":
            return a == b and a in S
        return False
    for tr, sym in OPS.items():
        fn = facts.hir_fn(f"<{VAL} as core::ops::arith::{tr}>::{tr.lower()}")
        ms = [mm for mm in find(fn["body"], lambda n: n.get("k") == "Match" and n.get("src") == "Normal")] if fn else []
        if not ms:
            t3.missing_anchor(f"impl {tr} for Val")
            continue
        m = ms[-1] if len(ms[-1]["arms"]) >= 2 else ms[0]
        m = max(ms, key=lambda mm: len(mm["arms"]))
        for a in variants:
            for b in variants:
                cs = candidates(m["arms"], T(vval(facts, a), vval(facts, b)))
                # the last candidate that surely matches decides when no earlier (guarded/partial) arm applies
                classes = []
                for i, how in cs:
                    body = m["arms"][i]["body"]
                    is_err = any(c.endswith("Error::<V>::math") or c.endswith("exn::Error::<V>::math") for c in callees(body))
                    classes.append(("error" if is_err else "defined", how))
                some_defined = any(c == "defined" for c, how in classes)
                want = defined(tr, a, b)
                t3.examined((tr, a, b), True, {"op": sym, "operands": [a, b], "defined": some_defined} if (a, b) in (("Null", "Num"), ("Arr", "Arr"), ("Obj", "Num")) else None)
                if some_defined != want:
                    t3.violate(f"{tr}/{a}/{b}", f"`{a} {sym} {b}` is {'defined' if some_defined else 'a math error'}, the manual says it is {'defined' if want else 'an error'}", where=m["arms"][cs[0][0]]["sp"] if cs else fn["sp"])
                if want and classes and classes[-1][0] != "error" and classes[-1][1] != "sure" and not (tr in ("Mul", "Rem")):
                    t3.violate(f"{tr}/{a}/{b}/fallthrough", f"`{a} {sym} {b}`: no unconditional arm", where=fn["sp"])
        if tr == "Rem":
            cs = candidates(m["arms"], T(vval(facts, "Num"), vval(facts, "Num")))
            g = m["arms"][cs[0][0]].get("guard") if cs else None
            ok = g is not None and any(c.endswith("is_int") for c in callees(g)) and bool(find(g, lambda n: n.get("k") == "Lit" and n["lit"].get("int") == 0))
            t3.examined(("Rem", "zero-guard"), True, {"remainder_by_integer_zero_is_an_error": ok})
            if not ok:
                t3.violate("Rem/zero", "`%` by integer zero is not guarded (it must be an error, not a panic or a value)", where=fn["sp"])
    out.append(t3.finish())

    # ---------------- T9.4 Math::run maps each operator to its own operation
    t4 = Rule("T9.4", "the arithmetic dispatcher maps Add/Sub/Mul/Div/Rem to + - * / % (no operator runs another's implementation)", floor=5)
    fn = facts.hir_fn("jaq_core::ops::Math::run")
    m = top_match(fn) if fn else None
    if m is None:
        t4.missing_anchor("ops::Math::run")
    else:
        for tr, sym in OPS.items():
            cs = candidates(m["arms"], C(f"jaq_core::ops::Math::{tr}"))
            b = strip(m["arms"][cs[0][0]]["body"]) if cs else {}
            got = b.get("op") if b.get("k") == "Binary" else None
            l_ok = b.get("k") == "Binary" and strip(b["l"]).get("path", {}).get("local") is not None
            # operand order: left parameter on the left
            order = None
            if b.get("k") == "Binary":
                ids = [p["id"] for p in [x for prm in fn["params"] for x in find(prm, lambda n: n.get("k") == "Bind")]]
                li, ri = strip(b["l"]).get("path", {}).get("id"), strip(b["r"]).get("path", {}).get("id")
                order = (ids.index(li), ids.index(ri)) if li in ids and ri in ids else None
            t4.examined(tr, True, {"operator": tr, "runs": got, "operand_order": order})
            if got != sym or order != (1, 2):
                t4.violate(f"run/{tr}", f"Math::{tr} runs `{got}` with operand order {order}; expected `l {sym} r`", where=fn["sp"])
    out.append(t4.finish())

    # ---------------- P9.3 representation independence
    p3 = Rule("P9.3", "representation independence: outside the operator implementations of the number type, every match that inspects the machine-integer representation also has an arm for big integers (or goes through as_isize/as_pos_usize), so equal integers behave identically however they are stored", floor=3)
    OPFN = re.compile(r"^<jaq_json::num::Num as core::(ops::arith::\w+|cmp::\w+|hash::Hash|fmt::\w+)>::|^jaq_json::num::Num::(as_isize|as_pos_usize|as_f64|is_int|length|from_\w+)$")
    for crate in ("jaq_json", "jaq_std", "jaq_fmts", "jaq_core", "jaq_all", "jaq"):
        for f in facts.hir(crate):
            if OPFN.search(f["def"]):
                continue
            for mm in find(f["body"], lambda n: n.get("k") in ("Match",) and n.get("src") in ("Normal", None)):
                paths = set()
                for a in mm["arms"]:
                    for p in find(a["pat"], lambda n: n.get("k") in ("TupleStruct", "Path", "Struct")):
                        d = (p.get("path") or {}).get("def") or ""
                        if d.startswith(NUM + "::"):
                            paths.add(d.split("::")[-1])
                if "Int" in paths:
                    ok = "BigInt" in paths
                    p3.examined((f["def"], mm["sp"]), True, {"fn": f["def"], "matches": sorted(paths)})
                    if not ok:
                        p3.violate(f"int-only/{f['def']}", f"`{f['def']}` matches Num::Int without an arm for Num::BigInt: an equal integer stored as a big integer would be treated differently", where=mm["sp"])
            for n in find(f["body"], lambda n: n.get("k") in ("LetExpr",) or (n.get("k") == "Let" and n.get("els") is not None)):
                ps = {(p.get("path") or {}).get("def", "").split("::")[-1] for p in find(n["pat"], lambda x: x.get("k") in ("TupleStruct", "Path")) if ((p.get("path") or {}).get("def") or "").startswith(NUM + "::")}
                if "Int" in ps and "BigInt" not in ps:
                    p3.examined((f["def"], n.get("sp")), True)
                    p3.violate(f"int-only-let/{f['def']}", f"`{f['def']}` tests for Num::Int with if-let/let-else only: big integers fall into the other branch", where=n.get("sp"))
    # the accessors that hide the representation must themselves know both of them
    for f in facts.hir("jaq_json"):
        if not re.match(r"^jaq_json::num::Num::(as_isize|as_pos_usize|as_f64|is_int|length|from_\w+)$", f["def"]):
            continue
        for mm in find(f["body"], lambda n: n.get("k") == "Match" and n.get("src") == "Normal" and NUM in n.get("scrut_ty", "")):
            named = {(p_.get("path") or {}).get("def", "").split("::")[-1] for a_ in mm["arms"] for p_ in find(a_["pat"], lambda n: n.get("k") in ("TupleStruct", "Path", "Struct")) if str((p_.get("path") or {}).get("def", "")).startswith(NUM + "::")}
            if "Int" in named:
                p3.examined((f["def"], "accessor"), True, {"fn": f["def"], "matches": sorted(named)})
                if "BigInt" not in named:
                    p3.violate(f"accessor/{f['def']}", f"`{f['def']}` has an arm for machine integers but none for big integers: an integer that happens to be stored as a big integer (e.g. `65 + 2^70 - 2^70`) is refused or converted differently", where=mm["sp"])
    out.append(p3.finish())

    # ---------------- T9.5 one operator per operator implementation
    t5 = Rule("T9.5", "each arithmetic operator of the number type computes with its own operator on every path: the machine fast path (checked_*), the big-integer fall-back "
              "and the float path of `-` all subtract, those of `+` all add, and so on (a fall-back copied from another operator is exact but wrong, and only reached on overflow)", floor=5)
    FAM = re.compile(r"core::ops::arith::(Add|Sub|Mul|Div|Rem|Neg)::|::(?:checked|wrapping|saturating|overflowing)_(add|sub|mul|div|rem|neg)$|^op:(Add|Sub|Mul|Div|Rem)$")
    seen_ops = 0
    for f in facts.hir("jaq_json"):
        m_ = re.match(r"^<jaq_json::num::Num as core::ops::arith::(Add|Sub|Mul|Div|Rem|Neg)>::\w+$", f["def"])
        if not m_:
            continue
        seen_ops += 1
        fam = set()
        for c in callees(f["body"]):
            mm = FAM.search(c)
            if mm:
                fam.add(next(g for g in mm.groups() if g).capitalize())
        t5.examined(m_.group(1), True, {"operator": m_.group(1), "operators_used_inside": sorted(fam)})
        other = fam - {m_.group(1)}
        if other:
            t5.violate(f"operator/{m_.group(1)}", f"the implementation of `{m_.group(1)}` for numbers also computes with {sorted(other)}: one of its paths (fast path, big-integer fall-back, float path) applies another operator", where=f["sp"])
    if seen_ops < 5:
        t5.missing_anchor(f"operator implementations of jaq_json::num::Num ({seen_ops} found)")
    out.append(t5.finish())

    # ---------------- T9.6 zero is a non-negative position in both integer representations
    t6 = Rule("T9.6", "the sign flag of a position (`PosUsize(non_negative, magnitude)`) counts zero as non-negative for machine integers and for big integers alike: "
              "a `> 0` / `is_positive` test would turn a zero stored as a big integer into a from-the-end position", floor=2)

    def includes_zero(e):
        """True / False / None(not understood) for a boolean expression meant to say `the integer is >= 0`"""
        e = strip(e)
        k = e.get("k")
        if k == "Binary":
            lit0 = lambda x: strip(x).get("k") == "Lit" and strip(x)["lit"].get("int") == 0
            op = e["op"]
            if lit0(e["r"]):
                return {">=": True, ">": False}.get(op)
            if lit0(e["l"]):
                return {"<=": True, "<": False}.get(op)
            names = " ".join(str(n_["path"].get("def")) for n_ in find([e["l"], e["r"]], lambda n: n.get("k") == "Path"))
            calls_ = " ".join(callees([e["l"], e["r"]]))
            if "sign" in calls_:
                if "Sign::Minus" in names:
                    return {"!=": True, "==": None}.get(op)
                if "Sign::Plus" in names:
                    return {"==": False, "!=": None}.get(op)
                if "Sign::NoSign" in names:
                    return None
        if k == "Unary" and e.get("op") == "!":
            inner = strip(e["e"])
            if inner.get("k") == "MethodCall" and inner["m"]["name"] == "is_negative":
                return True
            if inner.get("k") == "MethodCall" and inner["m"]["name"] == "is_positive":
                return None
        if k == "MethodCall":
            if e["m"]["name"] == "is_positive":
                return False
            if e["m"]["name"] == "is_negative":
                return None
        if k == "Lit" and "bool" in e["lit"]:
            return True
        return None
    for crate in ("jaq_json", "jaq_std"):
        for f in facts.hir(crate):
            if f.get("test"):
                continue
            for n in find(f["body"], lambda n: n.get("k") == "Call" and (strip(n["f"]).get("path") or {}).get("def") == "jaq_json::num::PosUsize" and n.get("args")):
                a0 = strip(n["args"][0])
                if a0.get("k") == "Path":
                    continue  # a flag passed on
                v = includes_zero(a0)
                t6.examined((f["def"], n["sp"]), True, {"fn": f["def"], "zero_counts_as_non_negative": v})
                if v is False:
                    t6.violate(f"zero/{f['def']}", f"`{f['def']}` builds a position whose sign flag excludes zero (a `> 0` / `is_positive` test): zero in this representation becomes a from-the-end position, unlike the equal integer in the other representation", where=n["sp"])
    out.append(t6.finish())
    return out
