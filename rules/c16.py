"""C16 — modules: guards of the loader and of file look-up (structural clauses)."""
import re
import time

from c05 import calls_through_closures, receiver_key
from common import Rule, finish
from mirutil import Body, LocalGraph, norm_def, op_local


def one(facts, rule, rx, crate):
    bs = facts.mir_find(rx, crate)
    if len(bs) != 1:
        rule.missing_anchor(f"{rx} ({len(bs)} matches)")
        return None
    return Body(bs[0])


def bool_switches(b, src_local):
    """Switches on (possibly negated copies of) the bool in src_local:
    yields (switch_bb, target_if_true, target_if_false)."""
    # polarity of locals equal to src (True) or its negation (False)
    pol = {src_local: True}
    changed = True
    while changed:
        changed = False
        for bb in b.bbs:
            for s in bb["st"]:
                if s.get("k") != "A" or s["p"].get("pr"):
                    continue
                r = s["r"]
                if r["k"] == "Use":
                    l = op_local(r["o"])
                    if l in pol and s["p"]["l"] not in pol:
                        pol[s["p"]["l"]] = pol[l]
                        changed = True
                elif r["k"] == "Un" and r["op"] == "Not":
                    l = op_local(r["a"])
                    if l in pol and s["p"]["l"] not in pol:
                        pol[s["p"]["l"]] = not pol[l]
                        changed = True
    out = []
    for i, bb in enumerate(b.bbs):
        t = bb["t"]
        if t["k"] == "Switch":
            l = op_local(t["o"])
            if l in pol:
                zero = [x for v, x in t["ts"] if v == 0]
                if not zero:
                    continue
                f_t, t_t = zero[0], t["else"]
                if not pol[l]:
                    f_t, t_t = t_t, f_t
                out.append((i, t_t, f_t))
    return out


def run(facts, tier):
    t0 = time.time()
    rules = []

    # ---------------- Loader::find
    g1 = Rule("G16.1", "circular imports: in the module loader, pushing a file on the open-module stack and parsing its definitions happen only on the `not already open` edge of the membership test on that stack, and the stack is popped after the recursive load", floor=3)
    g2 = Rule("G16.2", "load once: allocating and parsing a module file happen only on the `not found` edge of the look-up of its path among the already loaded modules", floor=2)
    b = one(facts, g1, r"^jaq_core::load::Loader::<.*>::find$", "jaq_core")
    if b is not None:
        pushes = [p for p in b.find_calls(r"alloc::vec::Vec::<T, A>::push$")]
        pops = b.find_calls(r"alloc::vec::Vec::<T, A>::pop$")
        popkeys = {receiver_key(b, q) for q in pops}
        open_push = [p for p in pushes if receiver_key(b, p) in popkeys]
        # what the guards protect is found by what it does, not by name: the steps of `find` that lex/parse the module
        # text, and the steps that descend into the module's own imports (recursion into `find`, directly, through a
        # helper or through a closure built here)
        lg = LocalGraph(facts, {"jaq_core"})
        me = norm_def(b.j["def"])
        is_lex = lambda d: re.search(r"^jaq_core::load::lex::Lexer::lex$|^jaq_core::load::parse::Parser::parse$", d) is not None
        parses, descends = [], []
        for i, tgt in lg.uses(b.j):
            if tgt.startswith("jaq_core::") or tgt in lg.bodies:
                if lg.reaches(tgt, is_lex) and i not in parses:
                    parses.append(i)
                if (tgt == me or lg.reaches(tgt, lambda d: d == me)) and i not in descends:
                    descends.append(i)
        allocs = b.find_calls(r"typed_arena::Arena::<T>::alloc$")
        contains = b.find_calls(r"core::slice::<impl \[T\]>::contains$")
        if not open_push or not parses or not contains:
            g1.missing_anchor(f"open.push ({len(open_push)}) / parsing step ({len(parses)}) / contains ({len(contains)}) in Loader::find")
        if not descends:
            g1.missing_anchor("recursive descent into the imports of a module in Loader::find")
        for c in contains:
            sws = bool_switches(b, b.call_result_local(c))
            if not sws:
                g1.violate("contains-unused", "the result of the membership test on the open-module stack is not branched on", where=b.bbs[c]["t"]["sp"])
            for sw, t_true, t_false in sws:
                for x, what in [(p, "open.push") for p in open_push] + [(p, "parse") for p in parses] + [(p, "descend-into-imports") for p in descends if p not in parses]:
                    ok = b.edge_dominates((sw, t_false), x)
                    g1.examined((what, b.bbs[x]["t"]["sp"]), True, {"site": what, "at": b.bbs[x]["t"]["sp"], "only_if_not_open": ok})
                    if not ok:
                        g1.violate(f"cycle-guard/{what}", f"`{what}` in the module loader is reachable although the file is already being loaded (circular import would recurse forever)", where=b.bbs[x]["t"]["sp"])
        for p in open_push:
            nxt = [t for t, k in b.succ(p, unwind=False)]
            ok = bool(pops) and all(b.always_reaches(n, pops) for n in nxt)
            g1.examined(("pop-after-push", b.bbs[p]["t"]["sp"]), True)
            if not ok:
                g1.violate("open-pop", "the open-module stack is not popped on every path after the recursive load", where=b.bbs[p]["t"]["sp"])
        positions = b.find_calls(r"core::iter::traits::iterator::Iterator>?::position$")
        if not positions or not allocs:
            g2.missing_anchor("position(..) / Arena::alloc in Loader::find")
        for c in positions:
            res = b.call_result_local(c)
            der = b.derived_from([res])
            sws = [i for i, bb in enumerate(b.bbs) if bb["t"]["k"] == "Switch" and op_local(bb["t"]["o"]) in der and b.node_dominates(c, i)]
            done = False
            for sw in sws:
                t = b.bbs[sw]["t"]
                # discriminant of Option: 0 = None, 1 = Some
                none_t = [x for v, x in t["ts"] if v == 0] or ([t["else"]] if any(v == 1 for v, x in t["ts"]) else [])
                if not none_t:
                    continue
                done = True
                for x, what in [(a, "Arena::alloc") for a in allocs] + [(p, "parse") for p in parses]:
                    ok = b.edge_dominates((sw, none_t[0]), x)
                    g2.examined((what, b.bbs[x]["t"]["sp"]), True, {"site": what, "only_if_not_loaded": ok})
                    if not ok:
                        g2.violate(f"load-once/{what}", f"`{what}` is reachable for a module that is already loaded (a module reached by several routes would be loaded twice)", where=b.bbs[x]["t"]["sp"])
            if not done:
                g2.violate("position-unused", "the result of the look-up among loaded modules is not branched on", where=b.bbs[c]["t"]["sp"])
    rules += [g1.finish(), g2.finish()]

    # ---------------- Import::find
    g3 = Rule("G16.3", "absolute paths are refused: every file-system probe of the import look-up happens only on the `is relative` edge of the test of the directive's path", floor=1)
    g4 = Rule("G16.4", "search order: the directive's `search` metadata paths come first and the command-line library paths second in the chained candidate list", floor=2)
    g5 = Rule("G16.5", "the default extension is applied only when the directive's path has none (set_extension is controlled by a test of Path::extension)", floor=1)
    g7 = Rule("G16.7", "metadata search paths are first expanded (`~`, `$ORIGIN`) and then joined to the directory of the importing file; library paths are expanded too", floor=2)
    b = one(facts, g3, r"^jaq_core::load::Import::<.*>::find$", "jaq_core")
    if b is not None:
        PROBE = r"std::path::Path::(canonicalize|is_file|exists|is_dir|metadata|try_exists)$|std::fs::(canonicalize|metadata|read|read_to_string|File::open)"
        probes = calls_through_closures(facts, b, PROBE)
        rels = b.find_calls(r"std::path::Path::(is_relative|is_absolute|has_root)$")
        if not probes or not rels:
            g3.missing_anchor(f"file probes ({len(probes)}) / is_relative ({len(rels)}) in Import::find")
        for rc in rels:
            callee = Body.callee(b.bbs[rc]["t"])
            sws = bool_switches(b, b.call_result_local(rc))
            if not sws:
                g3.violate("relative-unused", "the relativity test of the import path is not branched on", where=b.bbs[rc]["t"]["sp"])
            for sw, t_true, t_false in sws:
                good_edge = (sw, t_true) if callee.endswith("is_relative") else (sw, t_false)
                for p in probes:
                    ok = b.edge_dominates(good_edge, p)
                    g3.examined(("probe", b.bbs[p]["t"]["sp"]), True, {"probe_at": b.bbs[p]["t"]["sp"], "only_if_relative": ok})
                    if not ok:
                        g3.violate("probe-unguarded", "the file system is probed for an import path that is not known to be relative", where=b.bbs[p]["t"]["sp"])
        # search order
        chains = b.find_calls(r"core::iter::traits::iterator::Iterator::chain$")
        metas = b.find_calls(r"Import::<.*>::meta_paths$")
        if not chains or not metas:
            g4.missing_anchor("chain(..) / meta_paths() in Import::find")
        for c in chains:
            a0, a1 = set(b.arg_locals(c, 0)), set(b.arg_locals(c, 1))
            from_meta = set()
            for m in metas:
                from_meta |= b.derived_from([b.call_result_local(m)])
            from_paths = b.derived_from([2])  # parameter `paths` (self = _1, paths = _2, ext = _3)
            ok = bool(a0 & from_meta) and bool(a1 & from_paths) and not (a0 & from_paths) and not (a1 & from_meta)
            g4.examined(("chain", b.bbs[c]["t"]["sp"]), True, {"first": "meta paths" if a0 & from_meta else "?", "second": "library paths" if a1 & from_paths else "?"})
            if not ok:
                g4.violate("order", "the candidate list does not start with the directive's search metadata followed by the command-line library paths", where=b.bbs[c]["t"]["sp"])
        g4.examined(("param", b.locals[2]["ty"]), True)
        if "PathBuf" not in b.locals[2]["ty"]:
            g4.violate("param", f"second parameter of Import::find is not the library path list ({b.locals[2]['ty']})")
        # extension
        sets = b.find_calls(r"std::path::PathBuf::set_extension$|std::path::Path::with_extension$")
        exts = b.find_calls(r"std::path::Path::extension$")
        if not sets:
            g5.missing_anchor("set_extension in Import::find")
        for s in sets:
            ok = False
            for e in exts:
                for sw in b.switches_on([b.call_result_local(e)]):
                    if b.controlled_by(s, sw):
                        ok = True
            g5.examined(("set_extension", b.bbs[s]["t"]["sp"]), True, {"controlled_by_extension_test": ok})
            if not ok:
                g5.violate("extension", "the default extension is set unconditionally: a directive that names a file with an extension gets it replaced", where=b.bbs[s]["t"]["sp"])
        # expansion before join
        joins = 0
        for cj in facts.mir_find(r"^jaq_core::load::Import::<.*>::find::\{closure#\d+\}$", "jaq_core"):
            cb = Body(cj)
            for j in cb.find_calls(r"std::path::Path::join$"):
                calls = [i for i, t in cb.calls() if re.search(r"core::ops::function::Fn(Mut|Once)?::call(_mut|_once)?$", t.get("fn") or "")]
                exp = set()
                for i in calls:
                    exp |= cb.derived_from([cb.call_result_local(i)])
                arg = set(cb.arg_locals(j, 1))
                recv = set(cb.arg_locals(j, 0))
                if not calls:
                    continue  # `path.join(&rel)`: the final candidate, no expansion involved
                joins += 1
                ok = bool(arg & exp) and not (recv & exp)
                g7.examined((cj["def"], cb.bbs[j]["t"]["sp"]), True, {"closure": cj["def"], "expanded_then_joined": ok})
                if not ok:
                    g7.violate("expand-then-join", "a metadata search path is joined to the importing file's directory before `~`/`$ORIGIN` is expanded (the prefix is then no longer at the start)", where=cb.bbs[j]["t"]["sp"])
        maps = [i for i in b.find_calls(r"core::iter::traits::iterator::Iterator::map$") if set(b.arg_locals(i, 0)) & b.derived_from([2])]
        g7.examined(("library-paths-mapped",), True, {"library_paths_mapped_through_a_closure": bool(maps)})
        if joins == 0:
            g7.violate("no-join", "no closure of Import::find joins an expanded metadata path to the parent directory (anchor lost)")
    rules += [g3.finish(), g4.finish(), g5.finish(), g7.finish()]

    # ---------------- same look-up for modules and data
    g6 = Rule("G16.6", "module files and imported data files are located by the same Import::find, and what is read is the path it returned", floor=2)
    for rx, crate, reader in [(r"^jaq_core::load::Import::<.*>::read$", "jaq_core", r"std::fs::read_to_string$"), (r"^jaq::filter::parse_compile::\{closure#\d+\}$", "jaq", r"jaq_fmts::read::json_array$")]:
        found = False
        for cj in facts.mir_find(rx, crate):
            cb = Body(cj)
            finds = cb.find_calls(r"jaq_core::load::Import::<.*>::find$")
            reads = cb.find_calls(reader)
            if not reads:
                continue
            found = True
            for rd in reads:
                src = set()
                for f in finds:
                    src |= cb.derived_from([cb.call_result_local(f)])
                ok = bool(set(cb.arg_locals(rd)) & src)
                g6.examined((cj["def"], reader), True, {"fn": cj["def"], "reads_path_from_find": ok})
                if not ok:
                    g6.violate(f"read/{cj['def']}", f"`{cj['def']}` reads a file whose path does not come from Import::find", where=cb.bbs[rd]["t"]["sp"])
        if not found:
            g6.missing_anchor(f"{rx} calling {reader}")
    rules.append(g6.finish())

    # ---------------- module visibility reset
    g8 = Rule("G16.8", "a module sees only what it imports or includes itself: opening a module clears both the imported and the included module lists before filling them", floor=2)
    b = one(facts, g8, r"^jaq_core::compile::Compiler::<.*>::open_module$", "jaq_core")
    if b is not None:
        clears = b.find_calls(r"alloc::vec::Vec::<T, A>::clear$")
        pushes = b.find_calls(r"alloc::vec::Vec::<T, A>::push$")
        ckeys = {receiver_key(b, c) for c in clears}
        for p in pushes:
            k = receiver_key(b, p)
            ok = k in ckeys and any(receiver_key(b, c) == k and b.node_dominates(c, p) for c in clears)
            g8.examined(("push", k), True, {"list_field": k, "cleared_before_filled": ok})
            if not ok:
                g8.violate(f"not-cleared/{k}", "a module list is filled when a module is opened but not cleared first: definitions included/imported by a previously compiled module stay visible", where=b.bbs[p]["t"]["sp"])
        if len(pushes) < 2:
            g8.violate("anchor", f"open_module fills {len(pushes)} lists (expected imported and included modules)")
    rules.append(g8.finish())

    # ---------------- G16.9 resolution order of a call
    g9 = Rule("G16.9", "an unqualified call is resolved against local definitions first, then against the definitions of the included/imported modules, and only then against the "
              "native filters: in the compiler's call resolution the look-up among local definitions dominates the walk over the included modules, which dominates the "
              "construction of a native call (a module may redefine a natively implemented filter, as an inlined definition does)", floor=2)
    cj = facts.mir_find(r"^jaq_core::compile::Compiler::<.*>::call$", "jaq_core")
    comp = [a for a in facts.items("jaq_core")["adts"] if a["def"] == "jaq_core::compile::Compiler"]
    if len(cj) != 1 or not comp:
        g9.missing_anchor("Compiler::call / struct Compiler")
    else:
        fields = [f_["name"] for f_ in comp[0]["variants"][0]["fields"]]
        b = Body(cj[0])
        loc = b.find_calls(r"^jaq_core::compile::Locals::<.*>::call$")
        k_ = fields.index("included_mods") if "included_mods" in fields else None
        lg = LocalGraph(facts, {"jaq_core"})

        def own_native(body):
            return [i_ for i_, bb_ in enumerate(body["bbs"]) for s_ in bb_["st"] if s_.get("k") == "A" and s_["r"].get("k") == "Agg" and s_["r"].get("variant") == "Native" and "compile::Term" in (s_["r"].get("ak") or "")]

        def own_mods(body):
            out_ = []
            bx = Body(body)
            reads = set()
            for bb_ in bx.bbs:
                for s_ in bb_["st"]:
                    if s_.get("k") == "A" and s_["r"].get("k") in ("Ref", "Use"):
                        pl = s_["r"].get("p") or s_["r"]["o"].get("c") or s_["r"]["o"].get("m")
                        if pl and k_ is not None and {"f": k_} in (pl.get("pr") or []) and bx.locals[pl["l"]]["ty"].replace("&mut ", "").replace("&", "").startswith("jaq_core::compile::Compiler<"):
                            reads.add(s_["p"]["l"])
            der = bx.derived_from(reads) if reads else set()
            return [i_ for i_, t_ in bx.calls() if set(bx.arg_locals(i_)) & der and not bx.bbs[i_].get("cleanup")]
        me = norm_def(cj[0]["def"])
        has_native = lambda d: d != me and any(own_native(bd) for bd in lg.bodies.get(d, []))
        has_mods = lambda d: d != me and any(own_mods(bd) for bd in lg.bodies.get(d, []))
        # stages of this function: its own statements, and the helpers/closures it uses that do the work (found by what they do)
        nat = own_native(cj[0]) + [i_ for i_, tgt in lg.uses(cj[0]) if tgt != me and tgt in lg.bodies and lg.reaches(tgt, has_native, depth=3)]
        mods = own_mods(cj[0]) + [i_ for i_, tgt in lg.uses(cj[0]) if tgt != me and tgt in lg.bodies and lg.reaches(tgt, has_mods, depth=3)]
        nat = sorted(set(nat) - set(mods))
        if not loc or not nat or not mods:
            g9.missing_anchor(f"stages of the call resolution (local look-up {len(loc)}, walk over included_mods {len(mods)}, native call {len(nat)})")
        else:
            m0 = min(mods)
            ok1 = any(b.node_dominates(l_, m0) for l_ in loc)
            ok2 = all(any(b.node_dominates(m_, n_) for m_ in mods) for n_ in nat)
            g9.examined("locals-before-modules", True, {"local_definitions_before_modules": ok1})
            g9.examined("modules-before-natives", True, {"modules_before_native_filters": ok2})
            if not ok1:
                g9.violate("order/locals", "the walk over the included modules is not preceded by the look-up among local definitions", where=cj[0]["sp"])
            if not ok2:
                g9.violate("order/natives", "a native call can be chosen without (or before) consulting the definitions of the included/imported modules: a module's definition no longer shadows a natively implemented filter of the same name and arity", where=cj[0]["sp"])
    rules.append(g9.finish())

    # ---------------- G16.10 a comma list of the module header is flattened on both sides
    from hirutil import find as hfind, strip as hstrip
    g10 = Rule("G16.10", "the loader's flattening of `a, b, c` (a self-recursive function over terms with an arm for `BinaryOp::Comma`) hands *both* operands of the comma to the recursive call: "
               "the parser nests commas to either side, so a head-first walk would treat `(a, b), c` as two entries (used for the `search` list of import metadata: some search paths would be skipped)", floor=1)
    for f_ in facts.hir("jaq_core"):
        if not f_["def"].startswith("jaq_core::load::") or f_["def"].startswith("jaq_core::load::parse::") or f_["def"].startswith("jaq_core::load::lex::") or f_.get("test"):
            continue
        for mm in hfind(f_["body"], lambda n: n.get("k") == "Match"):
            for a_ in mm["arms"]:
                if not hfind(a_["pat"], lambda n: n.get("k") == "Path" and str((n.get("path") or {}).get("def", "")).endswith("BinaryOp::Comma")):
                    continue
                binds = {b_["id"]: b_["name"] for b_ in hfind(a_["pat"], lambda n: n.get("k") == "Bind")}
                rec = [c_ for c_ in hfind(a_["body"], lambda n: n.get("k") in ("MethodCall", "Call") and ((n.get("m") or {}).get("def") == f_["def"] or (hstrip(n.get("f") or {}).get("path") or {}).get("def") == f_["def"]))]
                if not rec or len(binds) < 2:
                    continue
                passed = set()
                for c_ in rec:
                    for x_ in ([c_.get("recv")] if c_.get("recv") else []) + list(c_.get("args", [])):
                        for p_ in hfind(x_, lambda n: n.get("k") == "Path" and "local" in (n.get("path") or {})):
                            passed.add(p_["path"].get("id"))
                missing = [nm for i_, nm in binds.items() if i_ not in passed]
                g10.examined(("comma-flatten", f_["def"]), True, {"fn": f_["def"], "operands_bound": sorted(binds.values()), "handed_to_the_recursive_call": sorted(nm for i_, nm in binds.items() if i_ in passed)})
                if missing:
                    g10.violate(f"one-sided/{f_['def']}", f"`{f_['def']}` flattens a comma list but does not recurse into operand(s) {missing}: a left-nested `(a, b), c` keeps `a, b` as one entry", where=a_["body"].get("sp"))
    rules.append(g10.finish())

    explanation = ("Dominance / control-dependence / value-flow rules on the MIR of the module loader (Loader::find), the file look-up (Import::find and its closures) and Compiler::open_module. "
                   "Decided: cycle guard, load-once guard, refusal of absolute paths, search order, extension rule, expand-then-join, one look-up for modules and data, per-module visibility reset. "
                   "Not decided: name resolution and variable indices across modules (value-level, C01-like).")
    return finish("C16", "other", rules, t0, tier, explanation, ["value flow is flow-insensitive and over-approximating"])
