"""Engine RANGE: intra-procedural interval analysis on the MIR JSON of driver pass P.

Purpose: *compute* (instead of argue in a reviewed inventory) that an arithmetic / division / bounds assertion of a
first-party function cannot fail. The analysis is a classic non-relational abstract interpretation:

  * domain: one interval per integer-typed local that is never borrowed mutably nor written through a projection
    (flow-insensitive join over all its assignments, widened to the type's range after a few rounds), plus the
    payloads of `(T, bool)` results of checked operators, of `Option<int>` results of a few known calls and of
    `Range<int>` values;
  * guards: at a program point, a local with a single static assignment is additionally constrained by every
    comparison whose outcome edge dominates that point (switch edges and passed assertions). Soundness of using a
    dominating guard for a single-assignment local: the assignment dominates the guard (definite initialisation), so
    between the last execution of the assignment and the use there is an execution of the guard edge;
  * everything unknown (calls, projections, casts that may truncate, escaped locals) is the full range of its type.

A site is *discharged* only when the interval argument is complete; otherwise it stays with the reviewed inventory.
"""
import re

from mirutil import Body, op_local

INF = float("inf")
BITS = {"u8": 8, "u16": 16, "u32": 32, "u64": 64, "u128": 128, "usize": 64, "i8": 8, "i16": 16, "i32": 32, "i64": 64, "i128": 128, "isize": 64}


def type_range(ty):
    if ty in BITS:
        n = BITS[ty]
        return (0, 2 ** n - 1) if ty.startswith("u") else (-(2 ** (n - 1)), 2 ** (n - 1) - 1)
    if ty == "bool":
        return (0, 1)
    if ty == "char":
        return (0, 0x10FFFF)
    return None


def join(a, b):
    if a is None:
        return b
    if b is None:
        return a
    return (min(a[0], b[0]), max(a[1], b[1]))


def meet(a, b):
    if a is None or b is None:
        return a or b
    return (max(a[0], b[0]), min(a[1], b[1]))


def within(a, r):
    return a is not None and r is not None and a[0] >= r[0] and a[1] <= r[1]


def clip(a, r):
    """interval of a value of a type with range r whose mathematical value lies in a (no wrap-around happened)"""
    if a is None:
        return r
    if r is None:
        return a
    lo, hi = max(a[0], r[0]), min(a[1], r[1])
    return (lo, hi) if lo <= hi else r


LEN_OF_BYTES = re.compile(r"^(core::slice::<impl \[T\]>::len|alloc::vec::Vec::<T, A>::len|core::str::<impl str>::len|alloc::string::String::len|bytes::bytes::Bytes::len|bytes::bytes_mut::BytesMut::len)$")
WIDEN_FROM = re.compile(r"^<(u\d+|usize|i\d+|isize) as core::convert::From<(u\d+|usize|i\d+|isize|bool|char)>>::from$|^core::convert::num::<impl core::convert::From<(u\d+|usize|i\d+|isize|bool|char)> for (u\d+|usize|i\d+|isize)>::from$")
NONZST = ("u8", "u16", "u32", "u64", "usize", "char", "i64", "isize", "jaq_json::Val", "bool")


class Ranges:
    def __init__(self, j):
        self.j = j
        self.b = Body(j)
        self.ty = [l["ty"] for l in j["locals"]]
        self.argc = j.get("argc") or 0
        self.assigns = {}      # local -> number of static assignments (statements + call destinations), whole local only
        self.escaped = set()   # locals that may change behind our back
        self._scan()
        self.val, self.pair0, self.optp, self.rng = {}, {}, {}, {}
        self._fix()
        self._dom_cache = {}

    # ---------------------------------------------------------------- preparation
    def _scan(self):
        for bb in self.b.bbs:
            for s in bb["st"]:
                if s.get("k") != "A":
                    continue
                p = s["p"]
                if p.get("pr"):
                    self.escaped.add(p["l"])
                    if "*" in p["pr"]:
                        self._deref_write = True
                else:
                    self.assigns[p["l"]] = self.assigns.get(p["l"], 0) + 1
                r = s["r"]
                if r.get("k") in ("Ref", "RawPtr") and (r.get("mut") or r.get("k") == "RawPtr"):
                    self.escaped.add(r["p"]["l"])
            t = bb["t"]
            if t["k"] == "Call":
                d = t["d"]
                if d.get("pr"):
                    self.escaped.add(d["l"])
                else:
                    self.assigns[d["l"]] = self.assigns.get(d["l"], 0) + 1

    def root(self, l):
        """follow plain copies of single-assignment locals"""
        seen = set()
        while l not in seen:
            seen.add(l)
            if self.assigns.get(l, 0) != 1 or l in self.escaped or l <= self.argc:
                break
            src = None
            for bb in self.b.bbs:
                for s in bb["st"]:
                    if s.get("k") == "A" and s["p"]["l"] == l and not s["p"].get("pr") and s["r"].get("k") == "Use":
                        pl = s["r"]["o"].get("c") or s["r"]["o"].get("m")
                        if pl is not None and not pl.get("pr"):
                            src = pl["l"]
            if src is None:
                break
            l = src
        return l

    def stable(self, l):
        """the value of this local is fixed once assigned (single static assignment or an unassigned parameter)"""
        if l in self.escaped:
            return False
        n = self.assigns.get(l, 0)
        return n == 1 and l > self.argc or (n == 0 and 1 <= l <= self.argc)

    # ---------------------------------------------------------------- evaluation
    def operand(self, o, ty=None, at=None):
        """interval of an operand (optionally refined by the guards dominating block `at`)"""
        if "k" in o:
            k = o["k"]
            v = k.get("v")
            if isinstance(v, bool):
                return (int(v), int(v))
            if isinstance(v, int):
                return (v, v)
            return type_range(k.get("ty") or ty or "")
        pl = o.get("c") or o.get("m")
        l, pr = pl["l"], pl.get("pr") or []
        if not pr:
            tr = type_range(self.ty[l])
            if l in self.escaped:
                return tr
            iv = self.val.get(l)
            if iv is None:
                iv = tr
            if at is not None:
                iv = self.refine(l, iv, at)
            return iv
        if pr == [{"f": 0}] and l in self.pair0 and l not in self.escaped:
            return self.pair0[l]
        if len(pr) == 2 and isinstance(pr[0], dict) and pr[0].get("d") == "Some" and pr[1] == {"f": 0} and l in self.optp and l not in self.escaped:
            return self.optp[l]
        return type_range(ty or "")

    def _bin(self, op, a, b, ty):
        tr = type_range(ty)
        if a is None or b is None:
            return tr
        unsigned = tr is not None and tr[0] == 0
        core = op.replace("WithOverflow", "").replace("Unchecked", "")
        if core == "Add":
            return (a[0] + b[0], a[1] + b[1])
        if core == "Sub":
            return (a[0] - b[1], a[1] - b[0])
        if core == "Mul":
            ps = [x * y for x in a for y in b if not (abs(x) == INF and y == 0) and not (abs(y) == INF and x == 0)]
            return (min(ps), max(ps)) if ps else tr
        if core == "BitAnd":
            if a[0] >= 0 and b[0] >= 0:
                return (0, min(a[1], b[1]))
            if b[0] >= 0:
                return (0, b[1])
            if a[0] >= 0:
                return (0, a[1])
            return tr
        if core in ("BitOr", "BitXor"):
            if a[0] >= 0 and b[0] >= 0 and a[1] != INF and b[1] != INF:
                n = max(int(a[1]).bit_length(), int(b[1]).bit_length())
                return (0, 2 ** n - 1)
            return tr
        if core == "Shr":
            if a[0] >= 0 and b[0] >= 0:
                return (0 if b[1] == INF else int(a[0]) >> int(min(b[1], 200)), a[1] if a[1] == INF else int(a[1]) >> int(b[0]))
            return tr
        if core == "Shl":
            if a[0] >= 0 and b[0] >= 0 and b[1] != INF and a[1] != INF:
                return (int(a[0]) << int(b[0]), int(a[1]) << int(b[1]))
            return tr
        if core == "Rem":
            if b[0] > 0 and b[1] != INF:
                return (0, min(a[1], b[1] - 1)) if a[0] >= 0 else (-(b[1] - 1), b[1] - 1)
            return tr
        if core == "Div":
            if a[0] >= 0 and b[0] > 0:
                return (0 if b[1] == INF else a[0] // b[1], a[1] if a[1] == INF else a[1] // b[0])
            return tr
        if core in ("Eq", "Ne", "Lt", "Le", "Gt", "Ge"):
            return (0, 1)
        return tr

    def _rvalue(self, s, dst_ty):
        r = s["r"]
        k = r["k"]
        tr = type_range(dst_ty)
        if k == "Use":
            return clip(self.operand(r["o"], dst_ty), tr) if tr else None
        if k == "Cast":
            if r.get("ck") == "IntToInt" and tr:
                src = self.operand(r["o"])
                return src if within(src, tr) else tr
            return tr
        if k == "Bin":
            ty = r.get("aty") or dst_ty
            res = self._bin(r["op"], self.operand(r["a"], ty), self.operand(r["b"], ty), ty)
            if r["op"].endswith("WithOverflow"):
                return ("pair", clip(res, type_range(ty)))
            if r["op"] in ("Add", "Sub", "Mul", "Shl", "Neg") and not within(res, type_range(ty)):
                return type_range(ty)      # unchecked operator: wraps
            return clip(res, tr) if tr else None
        if k == "Un":
            a = self.operand(r["a"], dst_ty)
            if r["op"] == "Not" and dst_ty == "bool":
                return (0, 1)
            if r["op"] == "Neg" and a is not None and tr:
                res = (-a[1], -a[0])
                return res if within(res, tr) else tr
            if r["op"] == "PtrMetadata":
                return (0, 2 ** 63 - 1) if tr else None
            return tr
        if k == "Agg" and "core::ops::range::Range" in (r.get("ak") or "") and len(r["ops"]) == 2:
            return ("range", (self.operand(r["ops"][0]), self.operand(r["ops"][1])))
        if k == "Discr":
            return tr
        return tr

    def _call(self, t):
        fn = t.get("res") or t.get("fn") or ""
        decl = t.get("fn") or ""
        d = t["d"]["l"]
        dty = self.ty[d]
        tr = type_range(dty)
        args = t["args"]
        if LEN_OF_BYTES.match(fn) or LEN_OF_BYTES.match(decl):
            elem = (t.get("gargs") or ["u8"])[0] if "slice" in decl or "Vec" in decl else "u8"
            return (0, 2 ** 63 - 1) if elem in NONZST or "str" in decl or "ytes" in decl or "String" in decl else tr
        if WIDEN_FROM.match(fn) and tr:
            src = self.operand(args[0])
            return src if within(src, tr) else tr
        if re.search(r"^core::cmp::(Ord::)?(min|max)$|^core::cmp::Ord::(min|max)$", decl) and tr and len(args) == 2:
            a, b = self.operand(args[0], dty), self.operand(args[1], dty)
            if a and b:
                return (min(a[0], b[0]), min(a[1], b[1])) if decl.endswith("min") else (max(a[0], b[0]), max(a[1], b[1]))
        m = re.search(r"^core::num::<impl (\w+)>::(saturating_sub|saturating_add|checked_sub|checked_add|checked_mul|abs_diff|count_ones|leading_zeros|trailing_zeros|unsigned_abs)$", decl)
        if m:
            ity, op = m.group(1), m.group(2)
            itr = type_range(ity)
            a = self.operand(args[0], ity)
            b = self.operand(args[1], ity) if len(args) > 1 else None
            if op in ("count_ones", "leading_zeros", "trailing_zeros"):
                return (0, BITS[ity])
            if op == "saturating_sub" and a and b:
                return clip((max(a[0] - b[1], itr[0]), max(a[1] - b[0], itr[0])), itr)
            if op == "saturating_add" and a and b:
                return clip((min(a[0] + b[0], itr[1]), min(a[1] + b[1], itr[1])), itr)
            if op.startswith("checked_") and a and b:
                res = self._bin({"checked_sub": "Sub", "checked_add": "Add", "checked_mul": "Mul"}[op], a, b, ity)
                return ("opt", clip(res, itr))
        jm = re.search(r"^jiff::civil::(?:datetime::DateTime|date::Date|time::Time)::(\w+)$|^jiff::zoned::Zoned::(\w+)$|^jiff::civil::weekday::Weekday::(to_\w+_offset)$", decl)
        if jm and tr:
            # documented ranges of the calendar library's accessors (trusted, like the library itself)
            acc = next(g for g in jm.groups() if g)
            known = {"year": (-9999, 9999), "month": (1, 12), "day": (1, 31), "day_of_year": (1, 366), "day_of_year_no_leap": (1, 365), "hour": (0, 23), "minute": (0, 59),
                     "second": (0, 59), "millisecond": (0, 999), "microsecond": (0, 999), "nanosecond": (0, 999), "subsec_nanosecond": (0, 999999999),
                     "days_in_month": (28, 31), "days_in_year": (365, 366), "to_sunday_zero_offset": (0, 6), "to_monday_zero_offset": (0, 6),
                     "to_sunday_one_offset": (1, 7), "to_monday_one_offset": (1, 7)}
            if acc in known and within(known[acc], tr):
                return known[acc]
        if re.search(r"^core::char::methods::<impl char>::to_digit$", decl) and len(args) == 2:
            rdx = self.operand(args[1], "u32")
            if rdx and rdx[1] != INF:
                return ("opt", (0, max(0, rdx[1] - 1)))
        if re.search(r"Iterator>?::next$|IntoIterator>?::into_iter$|iterator::Iterator::next$|collect::IntoIterator::into_iter$", decl) or re.search(r"Iterator>::next$|IntoIterator>::into_iter$", fn):
            src = None
            for l in self.b.ref_roots([x for x in (op_local(a) for a in args[:1]) if x is not None]):
                if l in self.rng and l not in self._rng_dirty:
                    src = self.rng[l]
            if src is not None:
                if decl.endswith("into_iter"):
                    return ("range", src)
                st, en = src
                if st and en:
                    return ("opt", (st[0], en[1] - 1 if en[1] != INF else INF))
        return tr

    def _fix(self):
        self._rng_dirty = set()
        # Range locals that are advanced through something else than `next` (e.g. passed to an unknown call by &mut) stay usable:
        # an advanced range only yields values inside [start, end)
        for rounds in range(12):
            changed = False

            def upd(tab, l, iv):
                nonlocal changed
                old = tab.get(l)
                new = join(old, iv) if tab is not self.rng else (iv if old is None else (join(old[0], iv[0]), join(old[1], iv[1])))
                if new != old:
                    if rounds >= 4 and tab is not self.rng:
                        tr = type_range(self.ty[l]) if tab is self.val else None
                        new = join(new, tr) if tr else (-INF if new[0] < (old or new)[0] else new[0], INF if new[1] > (old or new)[1] else new[1])
                    tab[l] = new
                    changed = changed or new != old

            for bb in self.b.bbs:
                for s in bb["st"]:
                    if s.get("k") != "A" or s["p"].get("pr"):
                        continue
                    l = s["p"]["l"]
                    res = self._rvalue(s, self.ty[l])
                    self._store(l, res, upd, s)
                t = bb["t"]
                if t["k"] == "Call" and not t["d"].get("pr"):
                    self._store(t["d"]["l"], self._call(t), upd, None)
            if not changed:
                break

    def _store(self, l, res, upd, s):
        if res is None:
            # a move/copy of a tracked aggregate keeps its payload
            if s is not None and s["r"].get("k") == "Use":
                pl = s["r"]["o"].get("c") or s["r"]["o"].get("m")
                if pl is not None and not pl.get("pr"):
                    for tab in (self.pair0, self.optp):
                        if pl["l"] in tab:
                            upd(tab, l, tab[pl["l"]])
                    if pl["l"] in self.rng:
                        upd(self.rng, l, self.rng[pl["l"]])
            return
        if isinstance(res, tuple) and res and res[0] == "pair":
            upd(self.pair0, l, res[1])
        elif isinstance(res, tuple) and res and res[0] == "opt":
            upd(self.optp, l, res[1])
        elif isinstance(res, tuple) and res and res[0] == "range":
            if res[1][0] is not None and res[1][1] is not None:
                upd(self.rng, l, res[1])
        elif type_range(self.ty[l]) is not None:
            upd(self.val, l, res)

    # ---------------------------------------------------------------- guards
    def _def_of(self, l):
        """the single defining statement of a local (None if not single-assignment by a statement)"""
        if self.assigns.get(l, 0) != 1 or l in self.escaped:
            return None
        for bb in self.b.bbs:
            for s in bb["st"]:
                if s.get("k") == "A" and s["p"]["l"] == l and not s["p"].get("pr"):
                    return s
        return None

    def _cond(self, l, truth=True, depth=0):
        """[(op, a_operand, b_operand, aty)] that hold when bool local l has the given truth value"""
        s = self._def_of(l)
        if s is None or depth > 4:
            return []
        r = s["r"]
        if r["k"] == "Use":
            pl = r["o"].get("c") or r["o"].get("m")
            if pl is not None and not pl.get("pr"):
                return self._cond(pl["l"], truth, depth + 1)
        if r["k"] == "Un" and r["op"] == "Not":
            x = op_local(r["a"])
            return self._cond(x, not truth, depth + 1) if x is not None else []
        if r["k"] == "Bin" and r["op"] in ("Lt", "Le", "Gt", "Ge", "Eq", "Ne"):
            op = r["op"]
            if not truth:
                op = {"Lt": "Ge", "Le": "Gt", "Gt": "Le", "Ge": "Lt", "Eq": "Ne", "Ne": "Eq"}[op]
            return [(op, r["a"], r["b"], r.get("aty"))]
        return []

    def _guards_at(self, block):
        """comparisons that hold on entry to `block`"""
        if block in self._dom_cache:
            return self._dom_cache[block]
        out = []
        b = self.b
        for i, bb in enumerate(b.bbs):
            t = bb["t"]
            if t["k"] == "Switch" and op_local(t["o"]) is not None and self.ty[op_local(t["o"])] == "bool":
                if i == block or not b.node_dominates(i, block):
                    continue
                l = op_local(t["o"])
                zero = [x for v, x in t["ts"] if v == 0]
                edges = [(zero[0], False), (t["else"], True)] if zero else []
                for tgt, truth in edges:
                    other = [e for e, _ in edges if e != tgt]
                    if tgt in other:
                        continue
                    if b.edge_dominates((i, tgt), block):
                        out += self._cond(l, truth)
            elif t["k"] == "Assert":
                if i == block or not b.node_dominates(i, block):
                    continue
                if not b.edge_dominates((i, t["t"]), block):
                    continue
                c = t["c"].get("c") or t["c"].get("m")
                if c is not None and not c.get("pr"):
                    out += self._cond(c["l"], bool(t["expected"]))
        self._dom_cache[block] = out
        return out

    def refine(self, l, iv, block):
        r = self.root(l)
        if not self.stable(r) and not self.stable(l):
            return iv
        for op, a, b, aty in self._guards_at(block):
            la, lb = op_local(a), op_local(b)
            ra = self.root(la) if la is not None and not ((a.get("c") or a.get("m") or {}).get("pr")) else None
            rb = self.root(lb) if lb is not None and not ((b.get("c") or b.get("m") or {}).get("pr")) else None
            if ra is not None and ra == r:
                o = self.operand(b, aty)
                if o is not None:
                    iv = self._apply(iv, op, o)
            if rb is not None and rb == r:
                o = self.operand(a, aty)
                if o is not None:
                    iv = self._apply(iv, {"Lt": "Gt", "Le": "Ge", "Gt": "Lt", "Ge": "Le", "Eq": "Eq", "Ne": "Ne"}[op], o)
        return iv

    @staticmethod
    def _apply(iv, op, o):
        lo, hi = iv
        if op == "Lt":
            hi = min(hi, o[1] - 1)
        elif op == "Le":
            hi = min(hi, o[1])
        elif op == "Gt":
            lo = max(lo, o[0] + 1)
        elif op == "Ge":
            lo = max(lo, o[0])
        elif op == "Eq":
            lo, hi = max(lo, o[0]), min(hi, o[1])
        elif op == "Ne" and o[0] == o[1]:
            if lo == o[0]:
                lo += 1
            if hi == o[0]:
                hi -= 1
        return (lo, hi) if lo <= hi else iv

    # ---------------------------------------------------------------- sites
    def assert_safe(self, i):
        """(safe?, explanation) for the Assert terminator of block i"""
        t = self.b.bbs[i]["t"]
        msg = t["msg"]
        c = t["c"].get("c") or t["c"].get("m")
        if c is None:
            return False, "constant condition"
        l, pr = c["l"], c.get("pr") or []
        if msg.startswith("Overflow(") and pr == [{"f": 1}]:
            s = self._def_of(l)
            if s is None or s["r"].get("k") != "Bin":
                return False, "operator not found"
            r = s["r"]
            ty = r.get("aty")
            a, b = self.operand(r["a"], ty, at=i), self.operand(r["b"], ty, at=i)
            res = self._bin(r["op"], a, b, ty)
            ok = within(res, type_range(ty))
            return ok, f"{r['op']} on {a} and {b} gives {res}, type {ty}"
        conds = self._cond(l, bool(t["expected"])) if not pr else []
        if not conds:
            return False, "condition not understood"
        op, a, b, aty = conds[0]
        A, B = self.operand(a, aty, at=i), self.operand(b, aty, at=i)
        if A is None or B is None:
            return False, "operand of unknown range"
        # the asserted relation must hold for all values of the intervals
        holds = {"Lt": A[1] < B[0], "Le": A[1] <= B[0], "Gt": A[0] > B[1], "Ge": A[0] >= B[1],
                 "Ne": A[1] < B[0] or A[0] > B[1], "Eq": A[0] == A[1] == B[0] == B[1]}[op]
        return holds, f"{op} asserted on {A} and {B}"


def discharged(facts, crates, skip_def=lambda d: False):
    """{(def, span)} of the Assert terminators (overflow, division, bounds) of first-party bodies that the interval
    analysis proves cannot fail, and the number of such terminators examined"""
    out = {}
    n = 0
    for c in crates:
        for j in facts.mir(c):
            if skip_def(j["def"]) or skip_def(j.get("root") or ""):
                continue
            idx = [i for i, bb in enumerate(j["bbs"]) if bb["t"]["k"] == "Assert" and not bb.get("cleanup")]
            if not idx:
                continue
            try:
                R = Ranges(j)
            except Exception as e:  # an analysis failure never discharges anything
                continue
            for i in idx:
                n += 1
                try:
                    ok, why = R.assert_safe(i)
                except Exception as e:
                    ok, why = False, f"analysis failed: {e!r}"
                if ok:
                    out[(j["def"], j["bbs"][i]["t"]["sp"], j["bbs"][i]["t"]["msg"])] = why
    return out, n
