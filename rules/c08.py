"""C08 — comparison is one consistent total order; equal values are interchangeable keys (table clauses)."""
import collections
import re
import time

from common import Rule, finish
from hirtab import ANY, C, L, T, adt_variants, callees, callees_inlined, candidates, top_match
from hirutil import find, strip, walk
from mono import Mono

VAL = "jaq_json::Val"
NUM = "jaq_json::num::Num"
# documented rank: null < bool < number < string (text|bytes) < array < object
RANK = {"Null": 0, "Bool": 1, "Num": 2, "BStr": 3, "TStr": 3, "Arr": 4, "Obj": 5}


def val(facts, adt, n):
    k = dict(adt_variants(facts, adt))[n]
    return C(f"{adt}::{n}", *([ANY] * k))


def ord_class(e):
    e = strip(e)
    if e.get("k") == "Path":
        d = e["path"].get("def") or ""
        if d.startswith("core::cmp::Ordering::"):
            return d.split("::")[-1]
        return "path:" + d
    if e.get("k") == "MethodCall" and (e["m"].get("def") or "").endswith("core::cmp::Ord::cmp"):
        return "delegate"
    if e.get("k") == "Match":
        return "nested"
    return "other:" + e.get("k", "?")


def bool_class(e):
    e = strip(e)
    if e.get("k") == "Lit" and "bool" in e["lit"]:
        return str(e["lit"]["bool"])
    if e.get("k") == "Binary" and e["op"] == "==":
        return "delegate"
    if e.get("k") == "MethodCall" and (e["m"].get("def") or "").endswith("PartialEq::eq"):
        return "delegate"
    return "other:" + e.get("k", "?")


def only_ptr_eq_guard(arm):
    g = arm.get("guard")
    if g is None:
        return False
    cs = callees(g)
    return bool(cs) and all(c.endswith("::ptr_eq") for c in cs)


def kernel_classes(e):
    """Which comparison kernels an arm of Num::cmp / Num::eq uses."""
    out = set()
    for c in callees(e):
        if c.endswith(("num::float_cmp", "num::float_eq")):
            out.add("float")
        elif "from_dec_str" in c:
            out.add("dec")
        elif c.endswith("::ptr_eq"):
            out.add("ptr")
        elif re.search(r"num_bigint::.*(Ord|PartialEq|PartialOrd)", c) or re.search(r"(Ord|PartialEq)(<.*>)? for num_bigint|BigInt", c):
            out.add("big")
        elif re.search(r"impl core::cmp::(Ord|PartialEq|PartialOrd)(<.*>)? for isize|for isize", c) or c in ("op:==",):
            out.add("int")
        elif c.endswith("core::cmp::Ord::cmp") or c.endswith("core::cmp::PartialEq::eq"):
            out.add("generic")
    return out


def run(facts, tier):
    t0 = time.time()
    rules = []
    variants = [n for n, k in adt_variants(facts, VAL) or []]

    # ---------------- T8.1 Ord for Val
    t1 = Rule("T8.1", "the 7x7 variant-pair table of `Ord for Val`: pairs of one rank delegate to the payload order, pairs of different rank are the constants of null < bool < number < string(text|bytes) < array < object, table(a,b) is the reverse of table(b,a), and no other (guarded) arm can intercept a pair", floor=49)
    fn = facts.hir_fn(f"<{VAL} as core::cmp::Ord>::cmp")
    m = top_match(fn) if fn else None
    cmp_tab = {}
    if m is None or set(variants) != set(RANK):
        t1.missing_anchor(f"impl Ord for Val / variants of Val ({variants})")
    else:
        for a in variants:
            for b in variants:
                cs = candidates(m["arms"], T(val(facts, VAL, a), val(facts, VAL, b)))
                extra = [(i, how) for i, how in cs[:-1] if not only_ptr_eq_guard(m["arms"][i])]
                last = cs[-1] if cs else None
                cls = ord_class(m["arms"][last[0]]["body"]) if last and last[1] == "sure" else "none"
                cmp_tab[(a, b)] = cls
                want = "delegate" if RANK[a] == RANK[b] else ("Less" if RANK[a] < RANK[b] else "Greater")
                if a == b == "Null":
                    want = "Equal"
                if a == b == "Obj":
                    want = "nested"
                ok = cls == want and not extra
                t1.examined((a, b), True, {"pair": [a, b], "class": cls, "expected": want})
                if not ok:
                    t1.violate(f"pair/{a}/{b}", f"Ord for Val on ({a}, {b}): arm class `{cls}`" + (f" preceded by {len(extra)} arm(s) that may intercept it" if extra else "") + f", the documented order requires `{want}`", where=m["arms"][(extra or [last])[0][0]]["sp"] if (extra or last) else fn["sp"])
        # object order: sizes then sorted keys then values
        obj_arm = [a for a in m["arms"] if ord_class(a["body"]) == "nested"]
        if len(obj_arm) == 1:
            inner = strip(obj_arm[0]["body"])
            dom = {"00": T(L(0), L(0)), "0n": T(L(0), L(3)), "n0": T(L(3), L(0)), "nn": T(L(2), L(3))}
            want = {"00": "Equal", "0n": "Less", "n0": "Greater"}
            for k, v in dom.items():
                cs = candidates(inner["arms"], v)
                extra = [c for c in cs[:-1]]
                cls = ord_class(inner["arms"][cs[-1][0]]["body"]) if cs and cs[-1][1] == "sure" else "none"
                if k == "nn":
                    body = inner["arms"][cs[-1][0]]["body"] if cs else {}
                    calls = callees_inlined(facts, body)
                    nsort = sum(1 for c in calls if re.search(r"::sort_by_key$|::sort_by_cached_key$|::sort$|::sort_by$", c))
                    ncmp = sum(1 for c in calls if c.endswith("Iterator::cmp"))
                    ok = nsort >= 2 and ncmp >= 2 and any(c.endswith("then_with") or c.endswith("::then") for c in calls) and not extra
                    t1.examined(("Obj", "Obj", k), True, {"object_order": "sort both by key, compare key sequences, then values", "sorts": nsort, "sequence_compares": ncmp, "intercepting_arms": len(extra)})
                    if not ok:
                        t1.violate("obj/nn", "objects are not compared by sorted key set and then by values in key order (or an extra arm intercepts non-empty objects): insertion order would influence the order", where=inner["arms"][(extra or cs)[0][0]]["sp"] if cs else obj_arm[0]["sp"])
                else:
                    ok = cls == want[k] and not extra
                    t1.examined(("Obj", "Obj", k), True)
                    if not ok:
                        t1.violate(f"obj/{k}", f"object comparison by size case {k}: `{cls}`, expected `{want[k]}`", where=obj_arm[0]["sp"])
        else:
            t1.violate("obj/anchor", "the object/object arm of Ord for Val is no longer a nested decision on the sizes")
        # antisymmetry
        rev = {"Less": "Greater", "Greater": "Less"}
        for (a, b), c in cmp_tab.items():
            if c in rev and cmp_tab.get((b, a)) != rev[c]:
                t1.violate(f"antisym/{a}/{b}", f"cmp({a},{b}) is {c} but cmp({b},{a}) is {cmp_tab.get((b, a))}")
    rules.append(t1.finish())

    # ---------------- T8.2 PartialEq for Val
    t2 = Rule("T8.2", "`PartialEq for Val` can be true exactly on the variant pairs on which the order delegates (same rank), and is the constant false elsewhere", floor=49)
    fn = facts.hir_fn(f"<{VAL} as core::cmp::PartialEq>::eq")
    m = top_match(fn) if fn else None
    if m is None:
        t2.missing_anchor("impl PartialEq for Val")
    else:
        for a in variants:
            for b in variants:
                cs = candidates(m["arms"], T(val(facts, VAL, a), val(facts, VAL, b)))
                extra = cs[:-1]
                cls = bool_class(m["arms"][cs[-1][0]]["body"]) if cs and cs[-1][1] == "sure" else "none"
                same = RANK.get(a) == RANK.get(b)
                want = ("True" if a == "Null" else "delegate") if same else "False"
                t2.examined((a, b), True, {"pair": [a, b], "class": cls})
                if cls != want or extra:
                    t2.violate(f"pair/{a}/{b}", f"PartialEq for Val on ({a}, {b}) is `{cls}`, consistent with the order would be `{want}`", where=m["arms"][cs[0][0]]["sp"] if cs else fn["sp"])
    rules.append(t2.finish())

    # ---------------- T8.3 Hash for Val
    t3 = Rule("T8.3", "`Hash for Val`: variants that can be equal (text and byte strings) share one arm (same tag, same payload hashing), tags of different ranks are distinct constants >= 2 (numbers write 0/1 first), objects are hashed after sorting by key", floor=7)
    fn = facts.hir_fn(f"<{VAL} as core::hash::Hash>::hash")
    m = top_match(fn) if fn else None
    if m is None:
        t3.missing_anchor("impl Hash for Val")
    else:
        arm_of = {}
        tags = {}
        for a in variants:
            cs = candidates(m["arms"], val(facts, VAL, a))
            if not cs or cs[-1][1] != "sure" or len(cs) != 1:
                t3.violate(f"arm/{a}", f"Hash for Val: no unique arm for variant {a}")
                continue
            i = cs[-1][0]
            arm_of[a] = i
            body = m["arms"][i]["body"]
            lits = [n["lit"]["int"] for n in find(body, lambda n: n.get("k") == "Lit" and "int" in n["lit"])]
            tags[a] = lits
            t3.examined(a, True, {"variant": a, "arm": i, "tag_literals": lits})
        for a in variants:
            for b in variants:
                if a < b and RANK[a] == RANK[b] and arm_of.get(a) != arm_of.get(b):
                    t3.violate(f"share/{a}/{b}", f"{a} and {b} compare equal but are hashed by different arms")
        seen = {}
        for a, ls in tags.items():
            if a == "Num":
                if ls:
                    t3.violate("num-tag", "the number arm of Hash for Val writes its own tag; it must delegate to Hash for Num")
                continue
            if not ls:
                t3.violate(f"tag/{a}", f"Hash for Val: variant {a} writes no tag constant")
            for x in ls:
                if x < 2:
                    t3.violate(f"tag-range/{a}", f"Hash for Val: tag {x} of {a} collides with the tags 0/1 reserved for numbers")
                if x in seen and RANK[seen[x]] != RANK[a]:
                    t3.violate(f"tag-dup/{a}", f"Hash for Val: tag {x} used for both {seen[x]} and {a}")
                seen.setdefault(x, a)
        if "Obj" in arm_of:
            cs_ = callees_inlined(facts, m["arms"][arm_of["Obj"]]["body"])
            if not any(re.search(r"::sort_by_key$|::sort_by$|::sort$|::sort_by_cached_key$", c) for c in cs_):
                t3.violate("obj-sort", "objects are hashed in insertion order although objects differing only in insertion order are equal")
    # Num::hash tags
    fnn = facts.hir_fn(f"<{NUM} as core::hash::Hash>::hash")
    if fnn is None:
        t3.missing_anchor("impl Hash for Num")
    else:
        for n in find(fnn["body"], lambda n: n.get("k") == "MethodCall" and n["m"]["name"] == "write_u8"):
            a = strip(n["args"][0])
            v = a["lit"].get("int") if a.get("k") == "Lit" else None
            t3.examined(("num-tag", n["sp"]), True, {"num_tag": v})
            if v not in (0, 1):
                t3.violate("num-tag-range", f"Hash for Num writes tag {v}; Val's tags assume numbers start with 0 or 1", where=n["sp"])
    rules.append(t3.finish())

    # ---------------- T8.4 Num tables
    t4 = Rule("T8.4", "`Ord for Num` and `PartialEq for Num` use the same comparison kernel on each of the 4x4 representation pairs (machine int, big int, float via float_cmp/float_eq, decimal via from_dec_str), and hashing of machine and finite big integers goes through the float hash", floor=32)
    kinds = [n for n, k in adt_variants(facts, NUM) or []]
    tabs = {}
    for tr, nm in (("core::cmp::Ord", "cmp"), ("core::cmp::PartialEq", "eq")):
        fn = facts.hir_fn(f"<{NUM} as {tr}>::{nm}")
        m = top_match(fn) if fn else None
        if m is None:
            t4.missing_anchor(f"impl {tr} for Num")
            continue
        for a in kinds:
            for b in kinds:
                cs = candidates(m["arms"], T(val(facts, NUM, a), val(facts, NUM, b)))
                cs = [c for c in cs if not only_ptr_eq_guard(m["arms"][c[0]])]
                if not cs or cs[-1][1] != "sure" or len(cs) != 1:
                    t4.violate(f"{nm}/{a}/{b}", f"{nm} for Num: no unique arm for ({a}, {b}): {cs}")
                    continue
                tabs[(nm, a, b)] = kernel_classes(m["arms"][cs[0][0]]["body"])
                t4.examined((nm, a, b), True, {"fn": nm, "pair": [a, b], "kernels": sorted(tabs[(nm, a, b)])})
    for a in kinds:
        for b in kinds:
            x, y = tabs.get(("cmp", a, b)), tabs.get(("eq", a, b))
            if x is None or y is None:
                continue
            norm = lambda s: {k for k in s if k not in ("generic", "ptr", "int", "big")} or {"generic"}
            # an (Int,Int)/(BigInt,BigInt) arm uses the primitive/bigint operator: generic
            if norm(x) != norm(y):
                t4.violate(f"kernel/{a}/{b}", f"Num ({a}, {b}): the order uses {sorted(x)} but equality uses {sorted(y)} -- equal values could be ordered apart")
            if ("Float" in (a, b)) and "Dec" not in (a, b) and not (a == b == "Float") and "float" not in x:
                t4.violate(f"float-route/{a}/{b}", f"Num ({a}, {b}): comparison against a float does not go through float_cmp")
            if "Dec" in (a, b) and "dec" not in x | y and "ptr" not in x | y:
                t4.violate(f"dec-route/{a}/{b}", f"Num ({a}, {b}): decimal literals are not converted with from_dec_str before comparing")
    if fnn is not None:
        mh = top_match(fnn)
        for k in ("Int", "BigInt", "Dec"):
            cs = candidates(mh["arms"], val(facts, NUM, k)) if mh else []
            ok = False
            if cs and cs[-1][1] == "sure":
                body = mh["arms"][cs[-1][0]]["body"]
                ctors = [n for n in find(body, lambda n: n.get("k") == "Call" and (n["f"].get("path") or {}).get("def") == f"{NUM}::Float")]
                hashes = [c for c in callees(body) if c.endswith("Hash>::hash") or c.endswith("Hash::hash")]
                ok = (bool(ctors) or any("from_dec_str" in c for c in callees(body))) and bool(hashes)
                if not ok:
                    # the same route through a shared helper: the arm calls a first-party function that the Float arm calls too
                    fcs = candidates(mh["arms"], val(facts, NUM, "Float"))
                    fbody = mh["arms"][fcs[-1][0]]["body"] if fcs and fcs[-1][1] == "sure" else None
                    shared = {c for c in callees(fbody) if c.startswith("jaq_json::")} & {c for c in callees(body) if c.startswith("jaq_json::")} if fbody else set()
                    ok = bool(shared) or (any("from_dec_str" in c for c in callees(body)) and bool(hashes))
                    if shared:
                        t4.notes.append(f"hash of {k} shares {sorted(shared)} with the float arm")
            if ok and k == "BigInt":
                conds = [callees(n["c"]) for n in find(body, lambda n: n.get("k") == "If")]
                flat = [c.split("::")[-1] for cs_ in conds for c in cs_]
                if flat != ["is_finite"]:
                    ok = False
                    t4.notes.append(f"BigInt hash route is conditional on {flat}, expected only is_finite of the converted float")
            t4.examined(("hash-route", k), True, {"hash_of": k, "through_float_hash": ok})
            if not ok:
                t4.violate(f"hash-route/{k}", f"Hash for Num::{k} does not go through the float hash: 1, 1.0 and 1e0 would hash differently although equal")
    rules.append(t4.finish())

    # ---------------- H8.5 float hash vs float compare
    h5 = Rule("H8.5", "every special case that float comparison applies before the total order (both zero => equal; NaN) has a counterpart in the float hash before the bit pattern is hashed (contradiction rule: equal floats must hash equally)", floor=2)
    fc = facts.hir_fn("jaq_json::num::float_cmp")
    if fc is None or fnn is None:
        h5.missing_anchor("num::float_cmp / Hash for Num")
    else:
        def special_cases(e):
            out = set()
            for n in find(e, lambda n: n.get("k") == "Binary" and n["op"] in ("==", "!=")):
                for side in (n["l"], n["r"]):
                    s = strip(side)
                    if s.get("k") == "Lit" and "float" in s["lit"] and float(s["lit"]["float"].rstrip("f64").rstrip("_") or 0) == 0.0:
                        out.add("zero")
            for c in callees(e):
                if c.endswith("::is_nan"):
                    out.add("nan")
                if c.endswith("::is_finite"):
                    out.add("nan")
                    out.add("inf")
                if c.endswith("::is_sign_negative") or c.endswith("::abs") or c.endswith("::copysign"):
                    out.add("zero")
            return out
        before_total = special_cases(fc["body"])
        mh = top_match(fnn)
        cs = candidates(mh["arms"], val(facts, NUM, "Float")) if mh else []
        hb = mh["arms"][cs[-1][0]]["body"] if cs else {}
        in_hash = special_cases(hb)
        uses_bits = any(re.search(r"::(to_ne_bytes|to_bits|to_le_bytes|to_be_bytes)$", c) for c in callees(hb))
        for case in sorted(before_total & {"zero", "nan"}):
            ok = case in in_hash or not uses_bits
            h5.examined(case, True, {"special_case_in_compare": case, "handled_in_hash": ok})
            if not ok:
                what = "+0.0 and -0.0 compare equal but hash differently" if case == "zero" else "NaNs compare alike but hash by bit pattern"
                h5.violate(case, f"float hash has no counterpart of the `{case}` case of float_cmp: {what} (object keys, unique, has(...) would distinguish equal values)", where=fnn["sp"])
        if not before_total:
            h5.violate("anchor", "float_cmp has no recognisable special cases any more")
    rules.append(h5.finish())

    # ---------------- S8.6 stable, uniform sorting (MONO)
    s6 = Rule("S8.6", "no unstable or heap-based ordering of value slices anywhere in the program (sort must be stable), and every ordering routine instantiated on values is one of the stable std routines", floor=4)
    g = Mono(facts.mono())
    UNSTABLE = re.compile(r"^core::slice::<impl \[T\]>::(sort_unstable|sort_unstable_by|sort_unstable_by_key|select_nth_unstable\w*)$|^alloc::collections::binary_heap::")
    STABLE = re.compile(r"^alloc::slice::<impl \[T\]>::(sort|sort_by|sort_by_key|sort_by_cached_key)$|^core::slice::<impl \[T\]>::(binary_search\w*)$")
    fp = {"jaq_core", "jaq_std", "jaq_json", "jaq_fmts", "jaq_all", "jaq"}
    for i, n in enumerate(g.nodes):
        if "jaq_json::Val" not in n["name"] and "jaq_core::" not in n["name"]:
            continue
        if UNSTABLE.search(n["def"]):
            callers = [g.nodes[a]["name"][:100] for a in range(len(g.nodes)) if any(b == i for b, k, sp in g.direct[a])][:3]
            s6.examined(n["name"], True)
            s6.violate(f"unstable/{n['def']}", f"unstable ordering routine `{n['def']}` is instantiated on values (`{n['name'][:120]}`): sort would not be stable for equal values with different representations", detail=callers)
        elif STABLE.search(n["def"]):
            s6.examined(n["name"], True, {"stable_routine": n["name"][:140]})
    rules.append(s6.finish())

    # ---------------- T8.7 comparisons of numbers look at both numbers
    t7 = Rule("T8.7", "`Ord` and `PartialEq` for numbers decide every pair of representations from both values: no arm ignores the payload of an operand it matches "
              "(a shortcut such as `a big integer is larger than any machine integer` is wrong for small values that are stored as big integers)", floor=18)
    for trait_, meth in (("core::cmp::Ord", "cmp"), ("core::cmp::PartialEq", "eq")):
        fn_ = facts.hir_fn(f"<{NUM} as {trait_}>::{meth}")
        mm = top_match(fn_) if fn_ else None
        if mm is None:
            t7.missing_anchor(f"impl {trait_.split('::')[-1]} for Num")
            continue
        for a in mm["arms"]:
            alts = a["pat"]["pats"] if a["pat"]["k"] == "Or" else [a["pat"]]
            used = {n["path"]["id"] for n in find([a["body"], a.get("guard")], lambda n: n.get("k") == "Path" and "local" in n["path"])}
            for alt in alts:
                if alt["k"] != "Tuple" or len(alt["pats"]) != 2:
                    continue
                for pos, side in enumerate(alt["pats"]):
                    while side.get("k") in ("Ref", "Deref", "Box"):
                        side = side["pat"]
                    if side.get("k") != "TupleStruct" or not str((side.get("path") or {}).get("def", "")).startswith(NUM + "::"):
                        continue
                    ids = {b_["id"] for b_ in find(side, lambda n: n.get("k") == "Bind")}
                    ok = bool(ids & used)
                    t7.examined((meth, a["sp"], pos), True, {"method": meth, "operand": ["left", "right"][pos], "representation": side["path"]["def"].split("::")[-1], "value_used": ok})
                    if not ok:
                        t7.violate(f"ignored/{meth}/{side['path']['def'].split('::')[-1]}/{pos}", f"`{meth}` for numbers has an arm that matches a {side['path']['def'].split('::')[-1]} operand but ignores its value: the pair is decided from the other operand alone (e.g. by its sign), which is wrong when both values are close", where=a["sp"])
    rules.append(t7.finish())

    explanation = ("Transitivity and totality over all values are value-level; decided here as finite tables over variant pairs extracted from the typed HIR by pattern semantics "
                   "(no execution): Ord/PartialEq/Hash of Val and Num are mutually consistent, the float hash normalises what float comparison merges, sorting of values is stable.")
    return finish("C08", "other", rules, t0, tier, explanation, ["num-bigint's Ord/Eq and f64::total_cmp are correct", "IndexMap uses Hash+Eq of the key correctly"])
