"""C06 — filters and data cannot make jaq touch files, network or other processes."""
import collections
import json
import os
import re
import time

from common import Facts, Rule, VERIF, finish
from hirutil import native_registry
from mono import Mono

FORBIDDEN = ("fs_open", "fs_mutate", "fs_path_read", "net", "process", "raw")
READ_ONLY_FS = ("fs_open", "fs_path_read")  # what the time-zone exception may use (read-only look-ups)
# inline assembly is a violation iff it can enter the kernel
ASM_SYSCALL = re.compile(r"\b(syscall|sysenter|svc|int\s+\$?0x80|int3?\b|ecall|swi)\b", re.I)


def asm_bad(n):
    return any(ASM_SYSCALL.search(t) for t in (n.get("asm") or []))


def fn_def(n):
    """Source-level identity of a node: the closure / fn item behind a call shim, else the def path."""
    c = n.get("closure")
    if c and n["def"].startswith("core::ops::function::"):
        return c[3:] if c.startswith("fn:") else c
    return n["def"]


def native_of(reg, d):
    """Name of the native filter whose registered closure (lexically) contains def path d."""
    while True:
        if d in reg:
            return reg[d][0]
        if "::{closure#" not in d:
            return None
        d = d[: d.rindex("::{closure#")]


def load_families():
    t = json.load(open(os.path.join(VERIF, "rules", "tables", "api_families.json")))
    return [(fam, re.compile(rx), why) for fam, rx, why in t["entries"]]


def classify(fams, node):
    for fam, rx, why in fams:
        if rx.search(node["def"]):
            return fam
    return None


def is_leaf(n):
    return n.get("leaf") in ("nomir", "foreign") and not n["dk"].startswith("Ctor")


NATIVE_SIG = "fn((jaq_core::filter::Ctx<"
INTERP = {"jaq_core::filter::<impl jaq_core::compile::TermId>::run", "jaq_core::filter::<impl jaq_core::compile::TermId>::paths",
          "jaq_core::filter::<impl jaq_core::compile::TermId>::update"}
# file-opening helpers of the load phase that live in the decoder crate (they open exactly the path
# handed to them by the command line and are never called from a native filter -- checked by R6.1)
LOAD_PHASE = re.compile(r"^jaq_fmts::read::(load_file|json_array)$")


def roots_of(g):
    N = g.nodes
    native = set()
    for sig, ts in g.reified_by_sig.items():
        if sig.startswith(NATIVE_SIG):
            native |= ts
    interp = {i for i, n in enumerate(N) if n["def"] in INTERP}
    codec = {i for i, n in enumerate(N)
             if re.match(r"^(jaq_fmts::(read|write)::|jaq_json::(read|write)::)", n["def"]) and not LOAD_PHASE.match(n["def"])
             and n["crate"] in ("jaq_fmts", "jaq_json")}
    return native, interp, codec


def run(facts, tier):
    t0 = time.time()
    g = Mono(facts.mono())
    N = g.nodes
    fams = load_families()
    rules = []
    reg = native_registry(facts)

    native, interp, codec = roots_of(g)
    # the interactive `repl` filter is the documented exception: delete its nodes
    repl = {i for i, n in enumerate(N) if fn_def(n).startswith("jaq::funs::repl") or (n.get("root") or "").startswith("jaq::funs::repl")}
    repl_native = {i for i in native if i in repl}

    r0 = Rule("R6.0", "roots are discovered from the current tree: every function coerced to one of jaq-core's native function-pointer types, the three interpreter entry points, every decoder/encoder function", floor=130)
    for i in native:
        r0.examined(N[i]["name"], True, {"native": native_of(reg, fn_def(N[i])), "fn": N[i]["name"][:120]})
        if native_of(reg, fn_def(N[i])) is None:
            r0.notes.append(f"native root without a registered name: {N[i]['name'][:100]}")
    if len(interp) != 3:
        r0.missing_anchor("TermId::{run,paths,update}")
    if len(codec) < 50:
        r0.violate("codec-roots", f"only {len(codec)} decoder/encoder instances found (expected >= 50)")
    if len(repl_native) != 1:
        r0.violate("repl-anchor", f"expected exactly one native root inside jaq::funs::repl, found {len(repl_native)} (the documented exception can no longer be identified)")
    rules.append(r0.finish())

    roots = (native | interp | codec) - repl

    def boundary(a, b, k):
        # the boundary edge of the time-zone exception: jaq_std::time* -> crate jiff
        return N[b]["crate"] == "jiff" and re.match(r"^jaq_std::time\b", fn_def(N[a])) is not None

    par_all = g.reach(roots, removed=repl)
    par_cut = g.reach(roots, removed=repl, cut_edge=boundary)

    # R6.1: no forbidden leaf outside the tz boundary
    r1 = Rule("R6.1", "no file-opening / file-system-mutating / path-reading / network / process / raw-syscall leaf is reachable from any native filter, the interpreter, a decoder or an encoder once the jaq_std::time->jiff boundary edges are removed (monomorphic whole-program call graph incl. all dependencies)", floor=10000)
    unknown = Rule("R6.1u", "every body-less leaf reachable during execution is classified in tables/api_families.json (fail closed on new APIs)", floor=150)
    famcount = collections.Counter()
    for i in par_cut:
        n = N[i]
        r1.examined(i, is_leaf(n) or bool(n.get("asm")))
        if asm_bad(n):
            r1.violate(f"asm/{n['def']}", f"inline assembly that can enter the kernel is reachable during filter execution ({n['asm']})", detail=g.chain(par_cut, i))
        if not is_leaf(n):
            continue
        fam = classify(fams, n)
        unknown.examined(n["def"], True)
        if fam is None:
            unknown.violate(f"unclassified/{n['def']}", f"leaf `{n['def']}` is reachable during filter execution and is not classified in tables/api_families.json", detail=g.chain(par_cut, i))
            continue
        famcount[fam] += 1
        if fam in FORBIDDEN:
            ch = g.chain(par_cut, i)
            first = next((c["fn"] for c in ch if c["fn"].startswith(("jaq", "<jaq", "{closure@jaq"))), ch[0]["fn"])
            r1.violate(f"{fam}/{n['def']}", f"`{n['def']}` ({fam}) is reachable during filter execution: {ch[0]['fn'][:100]} -> ... -> {n['def']}", detail=ch)
    r1.samples = [{"family_counts_in_E_without_tz": dict(famcount)}, {"roots": len(roots), "instances_reachable": len(par_cut), "program_instances": len(N)}]
    rules.append(r1.finish())

    # R6.1t: what the tz boundary adds must be read-only fs look-ups inside jiff
    r1t = Rule("R6.1t", "through the jaq_std::time->jiff boundary only read-only file look-ups are added, every one called from inside crate jiff (the time-zone database exception, exactly as the property grants it)", floor=1)
    extra = [i for i in par_all if i not in par_cut]
    tz_leaves = collections.Counter()
    for i in extra:
        n = N[i]
        r1t.examined(i, is_leaf(n))
        if asm_bad(n):
            r1t.violate(f"asm/{n['def']}", f"inline assembly that can enter the kernel behind the tz boundary ({n['asm']})")
        if not is_leaf(n):
            continue
        fam = classify(fams, n)
        unknown.examined(n["def"], True)
        if fam is None:
            unknown.violate(f"unclassified/{n['def']}", f"leaf `{n['def']}` (behind the time-zone boundary) is not classified", detail=g.chain(par_all, i))
            continue
        if fam in FORBIDDEN:
            tz_leaves[(fam, n["def"])] += 1
            p = par_all[i]
            caller = N[p[0]] if p else None
            if fam not in READ_ONLY_FS:
                r1t.violate(f"{fam}/{n['def']}", f"`{n['def']}` ({fam}) is reachable through the time-zone boundary; only read-only look-ups are excepted", detail=g.chain(par_all, i))
            else:
                # every caller chain must stay inside jiff/std between the boundary and the leaf
                ch = g.chain(par_all, i)
                seen_boundary = False
                ok = True
                for c_prev, c in zip(ch, ch[1:]):
                    if not seen_boundary:
                        if c["fn"].startswith(("jiff::", "<jiff::")) and re.search(r"jaq_std::time", c_prev["fn"]):
                            seen_boundary = True
                        continue
                    if c["fn"].startswith(("jaq", "<jaq", "{closure@jaq")):
                        ok = False
                if not ok:
                    r1t.violate(f"{fam}/{n['def']}/via-first-party", f"`{n['def']}` reached behind the tz boundary through first-party code", detail=ch)
    r1t.samples = [{"tz_only_leaves": sorted(f"{f}:{d}" for f, d in tz_leaves)}]
    if not tz_leaves:
        r1t.notes.append("no file-system leaf behind the boundary (jiff built without tzdb access?)")
    unknown.samples = [{"leaf": d} for d in sorted({N[i]['def'] for i in par_all if is_leaf(N[i])})[:5]]
    rules.append(r1t.finish())
    rules.append(unknown.finish())

    # R6.3: who may ask for the system time zone
    r3 = Rule("R6.3", "the system time zone (the only entry to the tz database that depends on the machine) is requested only by the local-time natives", floor=1)
    sys_tz = {i for i, n in enumerate(N) if n["def"] in ("jiff::tz::timezone::TimeZone::system", "jiff::tz::timezone::TimeZone::try_system")}
    if not sys_tz:
        r3.missing_anchor("jiff::tz::timezone::TimeZone::system")
    allowed_names = {"localtime", "strflocaltime"}
    for a in range(len(N)):
        if N[a]["crate"] == "jiff":
            continue
        for b, k, sp in g.direct[a]:
            if b in sys_tz:
                nm = native_of(reg, fn_def(N[a]))
                r3.examined(N[a]["name"], True, {"caller": N[a]["name"][:100], "native": nm, "at": sp})
                if nm not in allowed_names:
                    r3.violate(f"caller/{N[a]['def']}", f"`{N[a]['name'][:120]}` (native {nm}) requests the system time zone; only {sorted(allowed_names)} may", where=sp)
    rules.append(r3.finish())

    # R6.5: the one documented writer (--in-place) is conditional on the option
    r5 = Rule("R6.5", "outside the interactive repl the command-line driver changes the file system (temporary file, rename, chmod) only under the `--in-place` option: every such call in the driver is control-dependent on a test of Cli.in_place", floor=3)
    from mirutil import Body, op_local
    cli = [a for a in facts.items("jaq")["adts"] if a["def"] == "jaq::cli::Cli"]
    fields = [f["name"] for f in cli[0]["variants"][0]["fields"]] if cli else []
    if not cli or "in_place" not in fields:
        r5.missing_anchor("field jaq::cli::Cli.in_place")
    else:
        idx = fields.index("in_place")
        MUT = r"^tempfile::|^std::fs::(set_permissions|remove_file|rename|write|copy|create_dir|remove_dir|hard_link|File::create)"
        bodies = {}
        for crate, body in facts.all_mir():
            if crate != "jaq" or body.get("test") or body["def"].startswith("jaq::funs::repl") or (body.get("root") or "").startswith("jaq::funs::repl"):
                continue
            bodies[body["def"]] = Body(body)

        def flag_switches(b):
            """switches of this body on a value derived from a read of Cli.in_place"""
            flag_locals = set()
            for bb in b.bbs:
                for s_ in bb["st"]:
                    if s_.get("k") == "A" and s_["r"].get("k") == "Use":
                        pl = s_["r"]["o"].get("c") or s_["r"]["o"].get("m")
                        if pl and b.locals[pl["l"]]["ty"].endswith("jaq::cli::Cli") and [e for e in (pl.get("pr") or []) if e != "*"] == [{"f": idx}]:
                            flag_locals.add(s_["p"]["l"])
            return b.switches_on(flag_locals) if flag_locals else []

        def use_sites(d):
            """(caller def, block) of every direct call of `d` and of every construction of the closure `d` in the driver"""
            out = []
            for cd, cb in bodies.items():
                for i, t in cb.calls():
                    if (Body.callee(t) or "") == d or (t.get("fn") or "") == d:
                        out.append((cd, i))
                for i, bb in enumerate(cb.bbs):
                    for s_ in bb["st"]:
                        if s_.get("k") == "A" and s_["r"].get("k") == "Agg" and s_["r"].get("ak") == "Closure:" + d:
                            out.append((cd, i))
            return out

        def conditional(d, block, depth=0, seen=()):
            """the block of body `d` runs only under --in-place: controlled by a test of the flag in `d`, or every use of `d` is"""
            b = bodies[d]
            if any(b.controlled_by(block, sw) for sw in flag_switches(b)):
                return True
            if depth >= 4 or d in seen:
                return False
            us = use_sites(d)
            return bool(us) and all(conditional(cd, i, depth + 1, seen + (d,)) for cd, i in us)

        tested = [d for d, b in bodies.items() if flag_switches(b)]
        if not tested:
            r5.violate("no-test", "the command-line driver never branches on Cli.in_place")
        for d, b in sorted(bodies.items()):
            for s_ in b.find_calls(MUT):
                c = Body.callee(b.bbs[s_]["t"])
                ok = conditional(d, s_)
                r5.examined((d, c, b.bbs[s_]["t"]["sp"]), True, {"in": d, "call": c, "only_under_in_place": ok})
                if not ok:
                    r5.violate(f"unconditional/{c}", f"`{c}` in `{d}` is not conditional on --in-place (neither by a test of Cli.in_place in that function nor at every use of it): a plain run would create/rename/chmod files", where=b.bbs[s_]["t"]["sp"])
    rules.append(r5.finish())

    # R6.1x (thorough): the same reachability obligation on a second program built from the library crates
    if tier == "thorough":
        import common
        rx = Rule("R6.1x", "the reachability obligation R6.1 also holds for a second root program (jaq-all/examples/main.rs: compile a filter with all natives, run it on stdin) -- the natives, interpreter and codecs as a library, without the command-line driver", floor=5000)
        try:
            d2 = common.facts_dir(config="example-main", cargo_args=["-p", "jaq-all", "--example", "main"],
                                  extra_env={"JAQLINT_CRATES": "jaq_core,jaq_std,jaq_json,jaq_fmts,jaq_all,main", "JAQLINT_MONO": "main"})
            g2 = Mono(common.load(d2, "main.bin.mono.json"))
            N2 = g2.nodes
            nat2, int2, cod2 = roots_of(g2)
            cut2 = lambda a, b, k: N2[b]["crate"] == "jiff" and re.match(r"^jaq_std::time\b", fn_def(N2[a])) is not None
            par2 = g2.reach(nat2 | int2 | cod2, cut_edge=cut2)
            if len(nat2) < 130 or len(int2) != 3:
                rx.violate("roots", f"second root program: {len(nat2)} native roots, {len(int2)} interpreter entry points found")
            for i in par2:
                n = N2[i]
                rx.examined(i, is_leaf(n))
                if asm_bad(n):
                    rx.violate(f"asm/{n['def']}", f"[example main] kernel-entering inline assembly reachable ({n['asm']})", detail=g2.chain(par2, i))
                if not is_leaf(n):
                    continue
                fam = classify(fams, n)
                if fam is None:
                    rx.violate(f"unclassified/{n['def']}", f"[example main] leaf `{n['def']}` reachable during execution is not classified", detail=g2.chain(par2, i))
                elif fam in FORBIDDEN:
                    rx.violate(f"{fam}/{n['def']}", f"[example main] `{n['def']}` ({fam}) is reachable during filter execution", detail=g2.chain(par2, i))
            rx.samples = [{"program": "jaq-all/examples/main.rs", "instances": len(N2), "native_roots": len(nat2), "reachable_without_tz": len(par2)}]
        except SystemExit as e:
            rx.violate("extract", f"facts of the second root program could not be extracted: {e}")
        rules.append(rx.finish())

    # R6.4: resolution completeness (soundness side condition of the graph)
    r4 = Rule("R6.4", "every indirect call reachable during execution resolves by exact erased signature and every virtual call has at least one implementor (otherwise the arity fallback is used and listed)", floor=100)
    unres = [(a, s) for a, s, c in g.unresolved_indirect if a in par_all]
    nind = 0
    for a in par_all:
        for sig, sp in g.indirect.get(a, ()):
            nind += 1
            r4.examined((a, sig), True)
        for dk, slot, m, sp in g.virtual.get(a, ()):
            r4.examined((a, dk, slot), True)
    for a, s in unres:
        r4.notes.append(f"arity fallback for indirect call in {N[a]['name'][:80]}: {s[:120]}")
    r4.samples = [{"indirect_sites_in_E": nind, "unresolved_by_signature": len(unres)}]
    rules.append(r4.finish())

    # informational: first-party functions that can open files directly (load phase) and whether any is in E
    info = collections.defaultdict(set)
    fp = {"jaq_core", "jaq_std", "jaq_json", "jaq_fmts", "jaq_all", "jaq"}
    for a, n in enumerate(N):
        if n["crate"] not in fp:
            continue
        # direct-call closure over non-first-party code
        seen = set()
        st = [b for b, k, sp in g.direct[a]]
        while st:
            b = st.pop()
            if b in seen or N[b]["crate"] in fp:
                continue
            seen.add(b)
            if is_leaf(N[b]):
                fam = classify(fams, N[b])
                if fam in FORBIDDEN and N[b]["crate"] != "jiff":
                    info[n["def"]].add(fam)
                continue
            if N[b]["crate"] == "jiff":
                continue
            st.extend(x for x, k, sp in g.direct[b])
    r2 = Rule("R6.2", "first-party functions that reach a forbidden leaf through non-first-party code only (the load phase and the CLI) are outside the execution region E", floor=3)
    for d, f in sorted(info.items()):
        ids = [i for i, n in enumerate(N) if n["def"] == d]
        inE = [i for i in ids if i in par_cut]
        r2.examined(d, True, {"fn": d, "families": sorted(f), "in_E": bool(inE)})
        if inE:
            r2.violate(f"in-E/{d}", f"`{d}` can reach {sorted(f)} and is reachable during filter execution", detail=g.chain(par_cut, inE[0]))
    rules.append(r2.finish())

    # ---------------- R6.6 the `--in-place` temporary file cannot be left behind (shared with C18 W18.7)
    from c18 import rule_exit_only_after_run
    rules.append(rule_exit_only_after_run(facts, "R6.6").finish())

    # ---------------- R6.7 the documented exception is an exclusively created temporary file (shared with C18 W18.4)
    from c18 import rule_sole_writer
    rules.append(rule_sole_writer(facts, "R6.7").finish())

    explanation = ("Sound over-approximation of everything that can execute once a filter runs: BFS over the monomorphic whole-program call graph "
                   f"({len(N)} instances of the jaq binary incl. all dependencies; direct calls, drop glue, closures, fn-pointer calls resolved by erased signature, "
                   "virtual calls resolved by unsizing sites) from all native filters, the interpreter and all codecs; every body-less leaf is classified by an explicit API table.")
    return finish("C06", "proof", rules, t0, tier, explanation,
                  ["rustc's MIR, instance resolution and vtable layout are correct", "non-inlinable std functions and libc functions do what their names say (table api_families.json)",
                   "dependencies are compiled from the sources in the cargo registry at the versions of Cargo.lock", "host target x86_64-unknown-linux-gnu, default features of the jaq binary",
                   "function pointers obtained through dlsym/transmute are not modelled (2 sites in getrandom, not reachable during execution)"],
                  extra_cov={"graph": {"instances": len(N), "direct_edges": len(g.j["edges"]), "indirect_sites": len(g.j["indirect"]), "virtual_sites": len(g.j["virtual"]),
                                       "fn_pointer_signatures": len(g.reified_by_sig), "dyn_types": len(g.vt), "roots": len(roots), "E_without_tz": len(par_cut), "E_with_tz": len(par_all)}},
                  trusted_base=["rustc nightly MIR + Instance::resolve + vtable_entries", "tables/api_families.json (std/libc leaf semantics)", "Cargo.lock dependency sources"])
