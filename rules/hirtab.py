"""Engine TABLES: finite decision tables extracted from match expressions of the typed HIR.
Pattern semantics over finite constructor domains; arm bodies are reduced to classes by the caller."""
from hirutil import find, strip, walk

ANY = {"any": True}


def C(ctor, *args):
    return {"ctor": ctor, "args": list(args)}


def T(*vals):
    return {"tuple": list(vals)}


def L(x):
    return {"lit": x}


def path_of(p):
    """Resolved path of a pattern/expression path node."""
    if not isinstance(p, dict):
        return None
    return p.get("def") or p.get("selfctor") or p.get("local")


def lit_value(l):
    for k in ("int", "str", "char", "bool", "byte", "float"):
        if k in l:
            return l[k]
    if "bytes" in l:
        return bytes(l["bytes"])
    return None


def pat_match(p, v):
    """True / False / None (may match: depends on unknown parts of the value)."""
    k = p["k"]
    if k in ("Wild", "Missing"):
        return True
    if k == "Bind":
        return pat_match(p["sub"], v) if p.get("sub") else True
    if k in ("Ref", "Box", "Deref"):
        return pat_match(p["pat"], v)
    if k == "Guard":
        r = pat_match(p["pat"], v)
        return None if r else r
    if k == "Or":
        res = [pat_match(x, v) for x in p["pats"]]
        if any(r is True for r in res):
            return True
        if any(r is None for r in res):
            return None
        return False
    if v is ANY or v.get("any"):
        return None
    if k == "Tuple":
        if "tuple" not in v:
            return None
        return _seq(p["pats"], p.get("dd"), v["tuple"])
    if k in ("TupleStruct", "Struct", "Path"):
        pp = path_of(p["path"])
        if "ctor" not in v:
            if "lit" in v:
                return None
            return None
        if pp != v["ctor"]:
            # a path pattern may be a constant (e.g. f64::INFINITY): unknown
            if k == "Path" and (p["path"].get("dk") or "").startswith(("AssocConst", "Const")):
                return None
            return False
        if k == "TupleStruct":
            return _seq(p["pats"], p.get("dd"), v["args"])
        if k == "Struct":
            return None if p["fields"] else True
        return True
    if k == "Lit":
        if "lit" not in v:
            return None
        return lit_value(p["lit"]) == v["lit"]
    if k == "Range":
        if "lit" not in v:
            return None
        lo = lit_value(p["lo"]["lit"]) if p.get("lo") and p["lo"]["k"] == "Lit" else None
        hi = lit_value(p["hi"]["lit"]) if p.get("hi") and p["hi"]["k"] == "Lit" else None
        x = v["lit"]
        try:
            if lo is not None and x < lo:
                return False
            if hi is not None:
                if p["end"].startswith("Included"):
                    if x > hi:
                        return False
                elif x >= hi:
                    return False
            return True
        except TypeError:
            return None
    if k == "Slice":
        return None
    return None


def _seq(pats, dd, vals):
    if dd is None:
        if len(pats) != len(vals):
            return False if len(pats) > len(vals) else None
        rs = [pat_match(a, b) for a, b in zip(pats, vals)]
    else:
        before, after = pats[:dd], pats[dd:]
        rs = [pat_match(a, b) for a, b in zip(before, vals)] + ([pat_match(a, b) for a, b in zip(after, vals[len(vals) - len(after):])] if after else [])
    if any(r is False for r in rs):
        return False
    if any(r is None for r in rs):
        return None
    return True


def candidates(arms, v):
    """Arms that can be selected for value v, in order: list of (index, 'sure'|'maybe'|'guard').
    Stops at the first arm that surely matches without a guard."""
    out = []
    for i, a in enumerate(arms):
        r = pat_match(a["pat"], v)
        if r is False:
            continue
        if a.get("guard") is not None:
            out.append((i, "guard"))
            continue
        if r is None:
            out.append((i, "maybe"))
            continue
        out.append((i, "sure"))
        break
    return out


def matches_in(body, pred=lambda m: True):
    return find(body, lambda n: n.get("k") == "Match" and n.get("src", "Normal") == "Normal" and pred(n))


def top_match(fn_body):
    """The match expression that is (after stripping blocks / let-free prelude) the value of the function."""
    e = fn_body["body"]
    while True:
        e = strip(e)
        if e.get("k") == "Block" and e.get("expr") is not None:
            e = e["expr"]
            continue
        break
    return e if e.get("k") == "Match" else None


def callees(e):
    """Resolved callees (calls and method calls, overloaded operators) inside e, in source order."""
    out = []

    def f(n, d):
        k = n.get("k")
        if k == "MethodCall":
            out.append(n["m"].get("res") or n["m"].get("def") or n["m"]["name"])
        elif k == "Call":
            p = n["f"]
            if p.get("k") == "Path":
                pp = p["path"]
                out.append(pp.get("res") or pp.get("def") or pp.get("local") or "?")
        elif k in ("Binary", "Unary", "AssignOp") and n.get("overloaded"):
            out.append(n["overloaded"])
        elif k == "Binary":
            out.append("op:" + n["op"])

    walk(e, f)
    return out


def adt_variants(facts, adt_path):
    crate = adt_path.split("::")[0]
    for a in facts.items(crate)["adts"]:
        if a["def"] == adt_path:
            return [(v["name"], len(v["fields"])) for v in a["variants"]]
    return None


def callees_inlined(facts, e, depth=1):
    """callees(e) with every call of a first-party function replaced by that call followed by the callees of the
    function's body (to the given depth): a step moved into a helper function still counts as taken at the call site."""
    out = []
    for c in callees(e):
        out.append(c)
        if depth > 0 and isinstance(c, str) and c.split("::")[0].lstrip("<&") in ("jaq_core", "jaq_std", "jaq_json", "jaq_fmts", "jaq_all", "jaq"):
            f = None
            try:
                f = facts.hir_fn(c)
            except Exception:
                f = None
            if f is not None:
                out += callees_inlined(facts, f["body"], depth - 1)
    return out
