"""C10 — one position model per container: the structural clauses (who positions with what, shared look-ups,
order-perturbing map operations). Clipping, negative bounds and splice results are value-level and not decided."""
import re
import time

from common import Rule, finish
from hirtab import callees
from hirutil import find, strip
from c02 import rule_position_helpers, rule_vacant_insert
from c13 import native_closures, rule_char_decoder
from mirutil import Body


def run(facts, tier):
    t0 = time.time()
    rules = []

    # ---------------- P10.1 reader/updater agreement (shared with C02 T2.6)
    rules.append(rule_position_helpers(facts, "P10.1").finish())

    # ---------------- P10.2 unit of position per string kind (shared with C13 T13.4)
    rules.append(rule_char_decoder(facts, "P10.2").finish())

    # ---------------- P10.3 one look-up behind `.[k]`, `has` and destructuring
    p3 = Rule("P10.3", "`.[k]`, `has(k)` and destructuring patterns decide through one look-up: ValT::index is the optional look-up with `null` for absent, "
              "the native `has` asks the same optional look-up whether it found something, and pattern destructuring indexes with ValT::index", floor=3)
    idx = facts.hir_find(r"^<jaq_json::Val as jaq_core::val::ValT>::index$", "jaq_json")
    lookup = None
    if len(idx) != 1:
        p3.missing_anchor("<Val as ValT>::index")
    else:
        cand = []
        for c in callees(idx[0]["body"]):
            f = facts.hir_fn(c) if c.startswith("jaq_json::") else None
            if f is not None and "Option" in str(f.get("sig", "")):
                cand.append(c)
        cand = sorted(set(cand))
        p3.examined("index", True, {"site": "ValT::index", "optional_lookup": cand})
        if len(cand) != 1:
            p3.violate("index", f"ValT::index no longer wraps exactly one optional look-up (found {cand})", where=idx[0]["sp"])
        else:
            lookup = cand[0]
    nat = native_closures(facts, r"^jaq_json::funs::", "jaq_json")
    h = nat.get("has")
    if h is None:
        p3.missing_anchor("native has")
    elif lookup:
        cs = [c for c in callees(h) if c.startswith("jaq_json::")]
        p3.examined("has", True, {"site": "native has", "first_party_calls": sorted(set(cs))})
        if lookup not in cs:
            p3.violate("has", f"`has` no longer asks the look-up behind `.[k]` ({lookup}); it calls {sorted(set(cs))}: `has($k)` and `.[$k]` can disagree", where=h["sp"])
    bp = facts.hir_find(r"^jaq_core::filter::bind_pat$", "jaq_core")
    if len(bp) != 1:
        p3.missing_anchor("jaq_core::filter::bind_pat")
    else:
        cs = [c for c in callees(bp[0]["body"]) if re.search(r"ValT::\w+$", c)]
        p3.examined("bind_pat", True, {"site": "destructuring", "value_primitives": sorted(set(cs))})
        if not any(c.endswith("ValT::index") for c in cs):
            p3.violate("bind_pat", f"destructuring patterns no longer index with ValT::index (value primitives used: {sorted(set(cs))})", where=bp[0]["sp"])
    rules.append(p3.finish())

    # ---------------- P10.4 key order under non-deleting updates
    p4 = Rule("P10.4", "the order of object keys is disturbed by no update that keeps its key: the only first-party call of an order-perturbing map operation "
              "(swap_remove*, swap_indices, move_index, sort*, reverse, pop, drain, split_off) on an object is the constant-time removal in the deleting arm of map_index", floor=1)
    PERT = re.compile(r"^indexmap::.*::(swap_remove\w*|swap_indices|move_index|sort\w*|reverse|pop|drain|split_off|shift_insert|insert_before|swap_take)$|^<?indexmap::.*::(swap_remove\w*|swap_indices|move_index|sort\w*|reverse|pop|drain|split_off|shift_insert|insert_before)")
    sites = []
    for crate, b in facts.all_mir():
        if b.get("test"):
            continue
        body = Body(b)
        for i, t in body.calls():
            c = Body.callee(t) or ""
            d = t.get("fn") or ""
            if PERT.search(c) or PERT.search(d):
                sites.append((b.get("root") or b["def"], (c or d), t.get("sp")))
    for fn, c, sp in sites:
        ok = re.search(r"<jaq_json::Val as jaq_core::val::ValT>::map_index", fn) and re.search(r"swap_remove", c)
        p4.examined((fn, c.split("::")[-1]), True, {"site": fn, "operation": c})
        if not ok:
            p4.violate(f"{fn}/{c.split('::')[-1]}", f"{fn} calls {c}: an order-perturbing operation on an object map outside the deleting arm of map_index changes the key order of values that keep all their keys", where=sp)
    mi = facts.hir_find(r"^<jaq_json::Val as jaq_core::val::ValT>::map_index$", "jaq_json")
    if len(mi) != 1:
        p4.missing_anchor("<Val as ValT>::map_index")
    else:
        for m in find(mi[0]["body"], lambda n: n.get("k") == "Match"):
            for a in m["arms"]:
                if any(re.search(r"swap_remove", c) for c in callees(a["body"])) and not find(a["body"], lambda n: n.get("k") == "Match"):
                    pat = strip(a["pat"])
                    is_none = pat.get("k") == "Path" and (pat["path"].get("def") or "").endswith("Option::None")
                    p4.examined("deleting-arm", True, {"swap_remove_arm_pattern": (pat.get("path") or {}).get("def") or pat.get("k")})
                    if not is_none:
                        p4.violate("deleting-arm", "the constant-time removal in map_index is no longer in the arm taken when the update yields nothing", where=a["sp"])
    rules.append(p4.finish())

    # ---------------- P10.5 an update that yields nothing creates no position (shared with C02 T2.9)
    rules.append(rule_vacant_insert(facts, "P10.5").finish())

    # ---------------- P10.6 an object-valued index is a slice only where `.[k]` reads it as one
    p6 = Rule("P10.6", "the updater sends an index to the slice updater (`map_range`) only under a test of the *container's* kind (strings and arrays): for an object container an "
              "object-valued index is a key, as it is for `.[k]` and `has(k)`", floor=1)
    mi = facts.mir_find(r"^<jaq_json::Val as jaq_core::val::ValT>::map_index$", "jaq_json")
    if len(mi) != 1:
        p6.missing_anchor("<Val as ValT>::map_index")
    else:
        b = Body(mi[0])

        def assigned(l):
            return [s_ for bb_ in b.bbs for s_ in bb_["st"] if s_.get("k") == "A" and s_["p"].get("l") == l and not s_["p"].get("pr")]

        def tests_container(sw):
            """is the discriminant switched on in block sw that of `self` (local 1), looked at field-sensitively through `(&self, index)` tuples"""
            for s_ in b.bbs[sw]["st"]:
                if s_.get("k") == "A" and s_["r"].get("k") == "Discr":
                    x = s_["r"]["p"]["l"]
                    if 1 in b.ref_roots([x]) and not any(a_["r"].get("k") == "Use" and any(isinstance(q, dict) and "f" in q for q in (((a_["r"]["o"].get("c") or a_["r"]["o"].get("m") or {}).get("pr")) or [])) for a_ in assigned(x)):
                        return True
                    for a_ in assigned(x):
                        o_ = a_["r"].get("o") or {}
                        pl = o_.get("c") or o_.get("m") or {}
                        fs = [q["f"] for q in (pl.get("pr") or []) if isinstance(q, dict) and "f" in q]
                        if a_["r"].get("k") == "Use" and fs and "l" in pl:
                            for t_ in assigned(pl["l"]):
                                if t_["r"].get("k") == "Agg" and t_["r"].get("ak") == "Tuple" and fs[0] < len(t_["r"]["ops"]):
                                    src = t_["r"]["ops"][fs[0]]
                                    l_ = (src.get("c") or src.get("m") or {}).get("l")
                                    if l_ is not None and 1 in b.ref_roots([l_]) | {l_}:
                                        return True
            return False
        self_sw = [i for i, bb_ in enumerate(b.bbs) if bb_["t"]["k"] == "Switch" and tests_container(i)]
        # a boolean computed from such a test (`matches!(self, ..)`, a helper-free `let is_seq = match self {..}`): the flag is assigned
        # constants only, each in a block that one of the container tests decides
        for i, bb_ in enumerate(b.bbs):
            if bb_["t"]["k"] != "Switch" or i in self_sw:
                continue
            l_ = (bb_["t"]["o"].get("c") or bb_["t"]["o"].get("m") or {}).get("l")
            sets = [(j, s_) for j, b2 in enumerate(b.bbs) for s_ in b2["st"] if s_.get("k") == "A" and s_["p"].get("l") == l_ and not s_["p"].get("pr")]
            if l_ is not None and len(sets) >= 2 and all(s_["r"].get("k") == "Use" and "k" in (s_["r"].get("o") or {}) for _, s_ in sets) \
                    and all(any(b.controlled_by(j, sw) for sw in self_sw) for j, _ in sets):
                self_sw.append(i)
        slices = b.find_calls(r"ValT>::map_range$|ValT::map_range$|::map_range$")
        if not slices:
            p6.missing_anchor("call of map_range in map_index")
        for c_ in slices:
            ok = any(b.controlled_by(c_, sw) for sw in self_sw)
            p6.examined(("slice-route", b.bbs[c_]["t"]["sp"]), True, {"map_range_at": b.bbs[c_]["t"]["sp"], "under_a_test_of_the_container": ok, "container_tests": len(self_sw)})
            if not ok:
                p6.violate("slice-route", "`map_index` hands every object-valued index to the slice updater whatever the container is: `{({\"k\":0}):4} | .[{\"k\":0}] |= .+1` fails although `.[k]` and `has(k)` find the entry", where=b.bbs[c_]["t"]["sp"])
    rules.append(p6.finish())

    explanation = ("Clipping of bounds, negative positions, character boundaries and the contents of spliced results are relations over run-time values: not decided. "
                   "Decided: four structural necessary conditions of the one-position-model statement: readers and updaters position through the same helper per container kind, "
                   "text strings count with one character decoder and byte strings do not decode, `.[k]`/`has`/destructuring share one look-up, and key order is only disturbed by the deleting update.")
    return finish("C10", "other", rules, t0, tier, explanation, ["indexmap keeps insertion order under insert/get/entry and shift-free in-place replacement", "bstr's chars/char_indices/decode_utf8 implement one lossy decoding policy"])
