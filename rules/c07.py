"""C07 — print-then-parse is the identity; JSON texts mean what RFC 8259 says (constant-table clauses)."""
import re
import time

from common import Rule, finish
from hirtab import ANY, C, L, T, adt_variants, callees, callees_inlined, candidates, lit_value
from mirutil import Body, LocalGraph, norm_def, op_local
from hirutil import find, strip, walk

MANDATORY = set(range(0x20)) | {0x22, 0x5C}  # RFC 8259 section 7: control characters, quotation mark, reverse solidus
SHORT = {0x08: "\\b", 0x0C: "\\f", 0x09: "\\t", 0x0A: "\\n", 0x0D: "\\r", 0x22: '\\"', 0x5C: "\\\\"}
WRITERS = ["jaq_json::write::write", "jaq_json::write::write_buf", "jaq_json::write::format"]


def all_lits(e):
    out = []
    for n in find(e, lambda n: n.get("k") == "Lit"):
        if "str" in n["lit"]:
            out.append(n["lit"]["str"].encode())
        elif "bytes" in n["lit"]:
            out.append(bytes(n["lit"]["bytes"]))
    return out


def byte_matches(fn):
    """expansions of write_byte!: matches on a u8 with arms for 0x08 and 0x0c"""
    out = []
    for m in find(fn["body"], lambda n: n.get("k") == "Match" and n.get("src") == "Normal" and n["scrut_ty"] == "u8"):
        lits = {lit_value(a["pat"]["lit"]) for a in m["arms"] if a["pat"]["k"] == "Lit"}
        if {8, 12} <= lits:
            out.append(m)
    return out



def rule_utf8_sync(facts, rid):
    """standard input and file arguments read every format the same way with respect to UTF-8"""
    t5 = Rule(rid, "input bytes are validated as UTF-8 exactly for the formats whose parser is handed the text (`s`): the JSON family is parsed from the bytes and must not be "
              "pre-validated (a JSON text string may contain invalid UTF-8; validating it would reject, for file arguments only, what standard input and fromjson accept)", floor=9)
    fm = adt_variants(facts, "jaq_fmts::Format") or []
    bs = facts.hir_find(r"^jaq_fmts::read::(formats::)?bytes_str$", "jaq_fmts")
    prs = [f_ for f_ in facts.hir_find(r"^jaq_fmts::read::(formats::)?(parse|read)$", "jaq_fmts")]
    if len(bs) != 1 or not prs or not fm:
        t5.missing_anchor("jaq_fmts::read::bytes_str / parse / read / Format")
    else:
        def fmt_match(fn):
            ms_ = [m_ for m_ in find(fn["body"], lambda n: n.get("k") == "Match" and n.get("src") == "Normal" and "jaq_fmts::Format" in n.get("scrut_ty", ""))]
            return ms_[0] if ms_ else None
        mb = fmt_match(bs[0])
        validated = set()
        if mb is None:
            t5.missing_anchor("match on the format in bytes_str")
        else:
            for name, nf in fm:
                cs_ = [c_ for c_ in candidates(mb["arms"], C(f"jaq_fmts::Format::{name}")) if c_[1] == "sure"]
                if cs_ and any(c_.endswith("str::converts::from_utf8") or c_.endswith("::from_utf8") for c_ in callees(mb["arms"][cs_[-1][0]]["body"])):
                    validated.add(name)
            for fn in prs:
                mp = fmt_match(fn)
                sid = None
                for p_ in fn["params"]:
                    for b_ in find(p_, lambda n: n.get("k") == "Bind"):
                        if (b_.get("ty") or "").replace("'a ", "").replace("'_ ", "") in ("&str", "&'a str") or (b_.get("ty") or "").endswith("str") and (b_.get("ty") or "").startswith("&"):
                            sid = b_["id"]
                if mp is None or sid is None:
                    t5.missing_anchor(f"match on the format / text parameter in {fn['def']}")
                    continue
                for name, nf in fm:
                    uses = False
                    for i_, kind_ in candidates(mp["arms"], C(f"jaq_fmts::Format::{name}")):
                        a_ = mp["arms"][i_]
                        if find([a_["body"], a_.get("guard")], lambda n: n.get("k") == "Path" and n["path"].get("id") == sid):
                            uses = True
                    t5.examined((fn["def"].split("::")[-1], name), True, {"fn": fn["def"].split("::")[-1], "format": name, "parser_takes_text": uses, "validated_as_utf8": name in validated})
                    # a format that is parsed from the bytes must not be read through a UTF-8 validating reader either
                    arm_calls = []
                    for i_, kind_ in candidates(mp["arms"], C(f"jaq_fmts::Format::{name}")):
                        arm_calls += callees_inlined(facts, [mp["arms"][i_]["body"], mp["arms"][i_].get("guard")])
                    utf8_readers = sorted({c_ for c_ in arm_calls if re.search(r"read_to_string$|str::converts::from_utf8$|String::from_utf8$|^std::io::BufRead::lines$", c_)})
                    if name not in validated and utf8_readers:
                        t5.violate(f"reader/{name}", f"format {name} (parsed from the bytes) is read through {utf8_readers} in `{fn['def'].split('::')[-1]}`: input that is not valid UTF-8 is rejected on this path only (standard input and file arguments disagree)", where=fn["sp"])
                    if uses != (name in validated):
                        t5.violate(f"sync/{name}", f"format {name}: " + ("its parser is handed the text but the bytes are not validated as UTF-8" if uses else "the bytes are validated as UTF-8 although its parser reads the bytes themselves: input that standard input and the from* filter accept is rejected for file arguments"), where=bs[0]["sp"])
    return t5


def rule_byte_writers(facts, rid):
    t6 = Rule(rid, "the JSON writer to an I/O sink and the JSON writer to a buffer (behind tojson / @json / tostring) are the same code: they hand the same number of byte "
              "slices to their sink with `write_all` (strings are written as bytes, not through a lossy display), so `tojson | fromjson` is exact also for invalid UTF-8", floor=2)

    def sink_calls(d):
        n_, seen_ = 0, 0
        for j_ in facts.mir("jaq_json"):
            if j_["def"] == d or j_.get("root") == d:
                seen_ += 1
                for i_, t_ in Body(j_).calls():
                    if re.search(r"::write_all$", norm_def(t_.get("res") or t_.get("fn") or "")):
                        n_ += 1
        return n_, seen_
    (nw, sw), (nb, sb) = sink_calls("jaq_json::write::write"), sink_calls("jaq_json::write::write_buf")
    if not sw or not sb:
        t6.missing_anchor("jaq_json::write::write / write_buf")
    else:
        t6.examined("io", True, {"writer": "write", "byte_slices_written": nw})
        t6.examined("buf", True, {"writer": "write_buf", "byte_slices_written": nb})
        if nw != nb or nb == 0:
            t6.violate("byte-writes", f"the buffer writer behind tojson hands {nb} byte slices to its sink, the I/O writer {nw}: one of them writes strings through a formatter (lossy for invalid UTF-8) instead of as bytes", where=None)
    return t6

def run(facts, tier):
    t0 = time.time()
    rules = []

    # ---------------- T7.1 / T7.2 escapes of the writer
    t1 = Rule("T7.1", "string writer: for each of the 256 byte values, a byte that RFC 8259 requires to be escaped (U+0000..U+001F, quotation mark, reverse solidus) is never written literally; it is written as its short escape or through the numeric escape of the string kind; the splitter that finds bytes needing an escape covers the mandatory set", floor=1500)
    t2 = Rule("T7.2", "kind-specific numeric escapes: text strings use \\uXXXX and never \\xXX, byte strings use \\xXX and never \\uXXXX, in the writer; the reader rejects \\u inside byte strings and accepts \\x only there", floor=8)
    for w in WRITERS:
        fn = facts.hir_fn(w)
        if fn is None:
            t1.missing_anchor(w)
            continue
        bms = byte_matches(fn)
        if len(bms) < 2:
            t1.violate(f"{w}/expansions", f"`{w}`: found {len(bms)} byte-escaping tables (text and byte strings expected)")
        kinds = []
        for m in bms:
            fallback_kind = None
            for b in range(256):
                cs = candidates(m["arms"], L(b))
                if not cs or cs[-1][1] != "sure" or len(cs) != 1:
                    t1.violate(f"{w}/arm/{b}", f"`{w}`: byte {b:#04x} is not decided by exactly one arm")
                    continue
                arm = m["arms"][cs[0][0]]
                p = arm["pat"]
                literal_arm = p["k"] == "Bind" and not p.get("sub")
                lits = all_lits(arm["body"])
                t1.examined((w, bms.index(m), b), b in MANDATORY)
                if b in MANDATORY:
                    if literal_arm:
                        t1.violate(f"{w}/literal/{b:#04x}", f"`{w}` writes byte {b:#04x} literally inside a string; RFC 8259 requires it to be escaped", where=arm["sp"])
                    elif p["k"] == "Lit":
                        want = SHORT.get(b, "").encode()
                        if want not in lits:
                            t1.violate(f"{w}/short/{b:#04x}", f"`{w}` escapes byte {b:#04x} as {lits}, expected {want!r}", where=arm["sp"])
                    elif p["k"] == "Bind" and p.get("sub"):
                        if not any(c.endswith("escape_default") for c in callees(arm["body"])):
                            t1.violate(f"{w}/escape_default/{b:#04x}", f"`{w}`: byte {b:#04x} in the short-escape arm is not written through char::escape_default", where=arm["sp"])
                if p["k"] == "Or" and any(x["k"] == "Range" for x in p["pats"]):
                    joined = b"".join(lits)
                    k = "\\u" if b"\\u" in joined else "\\x" if b"\\x" in joined else None
                    fallback_kind = fallback_kind or k
            kinds.append(fallback_kind)
        # which expansion serves which string kind: look at the enclosing arm of the value match
        vm = [m for m in find(fn["body"], lambda n: n.get("k") == "Match" and n.get("src") == "Normal" and n["scrut_ty"].endswith("jaq_json::Val"))]
        seen = {}
        for m in vm:
            for name in ("TStr", "BStr"):
                cs = candidates(m["arms"], C(f"jaq_json::Val::{name}", ANY))
                if cs and cs[0][1] == "sure":
                    abody = m["arms"][cs[0][0]]["body"]
                    if find(abody, lambda n: n.get("k") == "Match" and n.get("src") == "Normal" and n["scrut_ty"].endswith("jaq_json::Val")):
                        continue  # decided by the nested value match
                    inner = byte_matches({"body": abody})
                    for im in inner:
                        for a in im["arms"]:
                            if a["pat"]["k"] == "Or" and any(x["k"] == "Range" for x in a["pat"]["pats"]):
                                joined = b"".join(all_lits(a["body"]))
                                seen.setdefault(name, set()).add("\\u" if b"\\u" in joined else "\\x" if b"\\x" in joined else "?")
        for name, want in (("TStr", {"\\u"}), ("BStr", {"\\x"})):
            got = seen.get(name)
            t2.examined((w, name), True, {"writer": w.split("::")[-1], "string_kind": name, "numeric_escape": sorted(got) if got else None})
            if got != want:
                t2.violate(f"{w}/{name}", f"`{w}` escapes non-printable bytes of {name} with {sorted(got) if got else 'nothing'}, expected {sorted(want)} (the reader accepts only that form for this kind)", where=fn["sp"])
        # the splitter `is_special`
        for m in find(fn["body"], lambda n: n.get("k") == "Match" and n["scrut_ty"] == "u8" and (n.get("exp") or "").startswith("macro:matches")):
            special = set()
            for b in range(256):
                cs = candidates(m["arms"], L(b))
                if cs and cs[0][1] == "sure":
                    body = strip(m["arms"][cs[0][0]]["body"])
                    if body.get("k") == "Lit" and body["lit"].get("bool") is True:
                        special.add(b)
            t1.examined((w, "is_special", m["sp"]), True, {"writer": w.split("::")[-1], "bytes_found_by_splitter": len(special)})
            if not MANDATORY <= special:
                t1.violate(f"{w}/is_special", f"`{w}`: the splitter does not stop at {sorted(hex(x) for x in MANDATORY - special)}; those bytes would be copied into the output unescaped", where=m["sp"])
    # reader side
    # the decision table on the escape letter, wherever in the reader module it lives (closure of the string reader, a helper of its own)
    ps = [f for f in facts.hir("jaq_json") if f["def"].startswith("jaq_json::read::") and not f.get("test")]
    em = None
    em_under_flag = False
    for f in ps:
        for m in find(f["body"], lambda n: n.get("k") == "Match" and n.get("src") == "Normal"):
            bs = {lit_value(a["pat"]["lit"]) for a in m["arms"] if a["pat"]["k"] == "Lit" and "byte" in a["pat"]["lit"]}
            if {ord("u"), ord("x")} <= bs:
                em = m
                # the whole table may sit under `if bytes { .. }` instead of carrying the test in each arm's guard
                for iff in find(f["body"], lambda n: n.get("k") == "If"):
                    cond_local = strip(iff.get("c") or {}).get("k") == "Path" and "local" in (strip(iff["c"]).get("path") or {}) and strip(iff["c"]).get("ty") == "bool"
                    if cond_local and iff.get("t") is not None and any(x is m for x in find(iff["t"], lambda n: n.get("k") == "Match")):
                        em_under_flag = True
    if em is None:
        t2.missing_anchor("escape table of read::parse_string")
    else:
        for ch, want in ((ord("u"), "reject"), (ord("x"), "hex")):
            arm = [a for a in em["arms"] if a["pat"]["k"] == "Lit" and lit_value(a["pat"]["lit"]) == ch][0]
            guarded = em_under_flag or (arm.get("guard") is not None and find(arm["guard"], lambda n: n.get("k") == "Path" and "local" in n["path"]))
            cl = callees(arm["body"])
            got = "reject" if any("InvalidKind" in str((n.get("f") or {}).get("path", {}).get("def", "")) for n in find(arm["body"], lambda n: n.get("k") == "Call")) else ("hex" if any(c.endswith("::hex") for c in cl) else "?")
            t2.examined(("reader", chr(ch)), True, {"reader_escape": "\\" + chr(ch), "in_byte_strings": got, "only_in_byte_strings": bool(guarded)})
            if got != want or not guarded:
                t2.violate(f"reader/{chr(ch)}", f"reader: `\\{chr(ch)}` inside byte strings is `{got}` (guarded by the string kind: {bool(guarded)}), expected `{want}` only for byte strings", where=arm["sp"])
    rules += [t1.finish(), t2.finish()]

    # ---------------- T7.3 literals and numbers
    t3 = Rule("T7.3", "non-integer literals are kept as the text that was read and printed unchanged; the special values and the keyword literals are spelled the same by writer and reader", floor=8)
    pn = facts.hir_find(r"^jaq_json::read::parse_num$", "jaq_json")
    if len(pn) != 1:
        t3.missing_anchor("read::parse_num")
    else:
        decs = [n for n in find(pn[0]["body"], lambda n: n.get("k") == "Call" and (strip(n["f"]).get("path") or {}).get("def") == "jaq_json::num::Num::Dec")]
        ok = False
        # the local that holds the lexed text: bound from num_string_with(..)
        lexed = set()
        for s in find(pn[0]["body"], lambda n: n.get("k") == "Let" and n.get("init") is not None):
            if any("num_string_with" in c or c.endswith("::as_ref") for c in callees(s["init"])):
                for b in find(s["pat"], lambda n: n.get("k") == "Bind"):
                    lexed.add(b["id"])
        for d in decs:
            ids = {n["path"]["id"] for n in find(d["args"][0], lambda n: n.get("k") == "Path" and "local" in n["path"])}
            cl = callees(d["args"][0])
            if ids & lexed and not any(re.search(r"parse|from_str|trim|replace|to_lowercase|format", c) for c in cl):
                ok = True
        t3.examined("dec-from-text", True, {"decimal_built_from_lexed_text": ok, "constructor_sites": len(decs)})
        if not ok:
            t3.violate("dec-from-text", "a non-integer number literal is not stored as the text that was lexed (it would be printed differently from how it was read)", where=pn[0]["sp"])
        # every non-integer literal takes that route: in the `not an integer` branch the only number built is Dec
        iffs = [n for n in find(pn[0]["body"], lambda n: n.get("k") == "If" and any(c.endswith("is_int") for c in callees(n["c"])))]
        if len(iffs) != 1 or iffs[0].get("f") is None:
            t3.violate("nonint-branch", "parse_num no longer decides integer / non-integer literals by one `is_int` test", where=pn[0]["sp"])
        else:
            built = sorted({(strip(n["f"]).get("path") or {}).get("def", "").split("::")[-1] for n in find(iffs[0]["f"], lambda n: n.get("k") == "Call" and ((strip(n["f"]).get("path") or {}).get("def") or "").startswith("jaq_json::num::Num::"))})
            t3.examined("nonint-only-dec", True, {"non_integer_literals_become": built})
            if built != ["Dec"]:
                t3.violate("nonint-only-dec", f"non-integer literals are turned into {built}; only the text-preserving Dec keeps `1.10`, `1e1000` or `0.000001` printable as read", where=iffs[0]["sp"])
    disp = facts.hir_fn("<jaq_json::num::Num as core::fmt::Display>::fmt")
    if disp is None:
        t3.missing_anchor("Display for Num")
    else:
        m = [mm for mm in find(disp["body"], lambda n: n.get("k") == "Match" and n.get("src") == "Normal")][0]
        cs = candidates(m["arms"], C("jaq_json::num::Num::Dec", ANY))
        cs = [c for c in cs if c[1] == "sure"]
        body = m["arms"][cs[0][0]]["body"] if cs else {}
        cl = callees(body)
        ok = bool(cs) and not any(re.search(r"parse|from_dec_str|to_string|ryu|format_finite", c) for c in cl)
        t3.examined("dec-display", True, {"decimal_printed_as_stored": ok})
        if not ok:
            t3.violate("dec-display", "Display for Num::Dec does not print the stored text unchanged", where=disp["sp"])
        wl = {x.decode(errors="replace") for x in all_lits(disp["body"]) if x.isalpha() or (x.startswith(b"-") and x[1:].isalpha())}
        rd = set()
        for f in facts.hir_find(r"^jaq_json::read::(parse|parse_num|parse_single_num)", "jaq_json"):
            rd |= {x.decode(errors="replace") for x in all_lits(f["body"])}
        for spelled in sorted(wl):
            core = spelled.lstrip("-")
            ok = core in rd
            t3.examined(("special", spelled), True, {"writer_spells": spelled, "reader_accepts": ok})
            if not ok:
                t3.violate(f"special/{spelled}", f"the writer prints `{spelled}` but the reader has no literal `{core}`")
        if not {"NaN", "Infinity", "-Infinity"} <= wl:
            t3.violate("special/missing", f"Display for Num no longer spells NaN/Infinity/-Infinity (found {sorted(wl)})")
    wfn = facts.hir_fn("jaq_json::write::format")
    rfn = facts.hir_find(r"^jaq_json::read::parse$", "jaq_json")
    if wfn and rfn:
        wl = {x.decode(errors="replace") for x in all_lits(wfn["body"])}
        rl = {x.decode(errors="replace") for x in all_lits(rfn[0]["body"])}
        for kw in ("null", "true", "false"):
            ok = kw in wl and kw in rl
            t3.examined(("keyword", kw), True, {"keyword": kw, "written_and_read": ok})
            if not ok:
                t3.violate(f"keyword/{kw}", f"`{kw}` is not spelled identically by writer and reader")
    tj = facts.hir_fn("jaq_json::Val::to_json")
    if tj is None:
        t3.missing_anchor("Val::to_json")
    else:
        cl = callees(tj["body"])
        ok = any(c.startswith("jaq_json::write::write") for c in cl) and not any(re.search(r"ToString::to_string$|alloc::fmt::format|core::fmt::Display", c) for c in cl)
        t3.examined("tojson-writer", True, {"tojson_uses_byte_preserving_writer": ok})
        if not ok:
            t3.violate("tojson-writer", "tojson does not go through the byte-preserving JSON writer (Display replaces invalid UTF-8 by U+FFFD, so text strings would change)", where=tj["sp"])
    rules.append(t3.finish())

    # ---------------- T7.4 map type and insertion order
    t4 = Rule("T7.4", "objects keep insertion order: the map type is an insertion-ordered map, and the parser inserts each member once in document order", floor=2)
    al = [a for a in facts.items("jaq_json")["aliases"] if a["def"] == "jaq_json::Map"]
    ok = bool(al) and al[0]["ty"].startswith("indexmap::map::IndexMap<")
    t4.examined("map-type", True, {"Map": al[0]["ty"][:80] if al else None})
    if not ok:
        t4.violate("map-type", f"jaq_json::Map is {al[0]['ty'] if al else 'missing'}, not an insertion-ordered map: key order would not survive a round trip")
    if rfn:
        # the parser and the private helpers it is split into (every function of the reader module)
        rbodies = [f_["body"] for f_ in facts.hir("jaq_json") if f_["def"].startswith("jaq_json::read::") and not f_.get("test")]
        ins = [n for n in find(rbodies, lambda n: n.get("k") == "MethodCall" and n["m"]["name"] in ("insert", "insert_full", "shift_insert", "entry", "insert_sorted", "insert_before")) if "IndexMap" in n.get("recv_ty", "") or "Map" in n.get("recv_ty", "")]
        names = sorted(n["m"]["name"] for n in ins)
        t4.examined("object-insert", True, {"object_member_insertions": names})
        if names != ["insert"]:
            t4.violate("object-insert", f"the object parser adds members with {names}; expected exactly one plain `insert` per member (document order, later duplicates overwrite in place)", where=rfn[0]["sp"])
    rules.append(t4.finish())

    # ---------------- T7.5 the bytes-to-text pre-check is synchronised with the per-format parsers
    rules.append(rule_utf8_sync(facts, "T7.5").finish())

    # ---------------- T7.6 the two byte writers are the same code
    rules.append(rule_byte_writers(facts, "T7.6").finish())

    # ---------------- T7.7 the reader knows every escape of RFC 8259
    t7 = Rule("T7.7", "if the JSON string reader decodes simple escapes itself (a decision table on the escape letter), the table covers all of RFC 8259: "
              "`\\\" \\\\ \\/ \\b \\f \\n \\r \\t` and `\\u`; otherwise it delegates to the lexer library", floor=1)
    ESC = {ord(c) for c in '"\\/bfnrtu'}
    tables = 0
    for f_ in facts.hir("jaq_json"):
        if not f_["def"].startswith("jaq_json::read::") or f_.get("test"):
            continue
        for mm in find(f_["body"], lambda n: n.get("k") == "Match" and n.get("src") == "Normal"):
            lits = set()
            for a_ in mm["arms"]:
                for p_ in find(a_["pat"], lambda n: n.get("k") == "Lit"):
                    v_ = p_["lit"].get("byte")
                    if v_ is None and "char" in p_["lit"]:
                        v_ = ord(p_["lit"]["char"])
                    if isinstance(v_, int):
                        lits.add(v_)
            if len(lits & ESC) >= 4 and {ord("n"), ord("t")} <= lits and not lits & set(b"[{-0123456789"):   # not the dispatch on the first byte of a value
                tables += 1
                missing = sorted(chr(c) for c in ESC - lits)
                wild_delegates = any(strip(a_["pat"]).get("k") in ("Wild", "Bind") and any(re.search(r"::Lex::escape$|::escape$", c_) for c_ in callees(a_["body"])) for a_ in mm["arms"])
                t7.examined(("escape-table", f_["def"]), True, {"fn": f_["def"], "escapes_decoded_by_hand": sorted(chr(c) for c in lits & ESC), "others_delegated": wild_delegates})
                if missing and not wild_delegates:
                    t7.violate(f"escape/{''.join(missing)}", f"`{f_['def']}` decodes escapes with its own table, which lacks {missing}: valid JSON text (e.g. `\"http:\\/\\/x\"`) is rejected", where=mm["sp"])
    t7.examined("tables", True, {"hand_written_escape_tables": tables})
    rules.append(t7.finish())

    # ---------------- T7.8 integer literals: the arbitrary-precision fallback is applied whenever the machine parse fails
    t8 = Rule("T7.8", "a function that parses an integer literal with the machine-width parser and has an arbitrary-precision fallback applies the fallback on every path on which the "
              "machine parse may have failed: a result is returned without it only under a test of the machine parse's own outcome (never under a test of the text, e.g. its length)", floor=1)
    lg = LocalGraph(facts, {"jaq_json"})
    is_machine = lambda d: bool(re.search(r"^core::num::(<impl [iu](size|64)>::)?from_str_radix$|[iu](size|64) as core::str::traits::FromStr>::from_str$", d))
    is_big = lambda d: bool(re.search(r"(?i)bigint", d)) and bool(re.search(r"from_str_radix|parse_bytes|from_str$", d))
    clos_by_sp = {"{closure@" + b_["sp"]: norm_def(b_["def"]) for b_ in facts.mir("jaq_json") if b_.get("kind") == "Closure"}
    def clos_of_ty(ty):
        for k_, d_ in clos_by_sp.items():
            if ty.lstrip("&").startswith(k_ + ":"):
                return d_
        return None
    n8 = 0
    for b_ in facts.mir("jaq_json"):
        if b_.get("kind") == "Closure" or b_.get("test") or is_big(b_["def"]):
            continue
        d0 = norm_def(b_["def"])
        direct = {t_ for _, t_ in lg.uses(b_)}
        via = lambda pred: any(pred(x) or (x in clos_by_sp.values() and lg.reaches(x, pred, 3)) for x in direct)
        if not (via(is_machine) and via(is_big)):
            continue
        n8 += 1
        body = Body(b_)
        fallback = set()
        for i_, t_ in body.calls():
            tg = [norm_def(c_) for c_ in (t_.get("res"), t_.get("fn")) if c_]
            tg += [clos_of_ty(ty_) for ty_ in t_.get("argtys", []) if clos_of_ty(ty_)]
            if any(lg.reaches(x, is_big, 3) for x in tg):
                fallback.add(i_)
        # edges taken when a parse outcome is a success (`Some` of an Option, `Ok` of a Result): returning under them needs no fallback
        success_edges = []
        for i_, bb_ in enumerate(body.bbs):
            if bb_["t"]["k"] != "Switch":
                continue
            l_ = op_local(bb_["t"].get("o"))
            for bb2 in body.bbs:
                for s_ in bb2["st"]:
                    if s_.get("k") == "A" and s_["p"].get("l") == l_ and not s_["p"].get("pr") and s_["r"].get("k") == "Discr":
                        src_ty = b_["locals"][s_["r"]["p"]["l"]]["ty"].lstrip("&")
                        ok_v = 1 if src_ty.startswith("core::option::Option<") else 0 if src_ty.startswith("core::result::Result<") else None
                        if ok_v is None:
                            continue
                        listed = {v_: t2 for v_, t2 in bb_["t"]["ts"]}
                        if ok_v in listed:
                            success_edges.append((i_, listed[ok_v]))
                        elif bb_["t"].get("else") is not None:
                            success_edges.append((i_, bb_["t"]["else"]))
        rets = [x for x in body.reachable(0, removed_nodes=fallback, unwind=False) if body.bbs[x]["t"]["k"] == "Return"]
        bad = [x for x in body.reachable(0, removed_nodes=fallback, removed_edges=success_edges, unwind=False) if body.bbs[x]["t"]["k"] == "Return"]
        t8.examined(("int-reader", b_["def"]), True, {"fn": b_["def"], "fallback_calls": len(fallback), "returns_without_fallback": len(rets), "of_which_not_under_an_outcome_test": len(bad)})
        if bad:
            t8.violate(f"no-fallback/{b_['def']}", f"`{b_['def']}` can return the result of the machine-width parse without trying the arbitrary-precision parser, on a path not conditioned on that result: "
                       "large integer literals are lost (become null/float)", where=body.bbs[bad[0]]["t"].get("sp"))
    if n8 == 0:
        t8.missing_anchor("a function in jaq_json combining the machine-width integer parser with an arbitrary-precision fallback")
    rules.append(t8.finish())

    explanation = ("Round-trip equality for all values is value-level (and half of it lives in the third-party lexer hifijson): not decided. Decided as constant tables extracted from the macro-expanded typed HIR: "
                   "the 256-row escape tables of the three writers, the numeric escape per string kind in writer and reader, decimals kept as text, identical spelling of special values and keywords, insertion-ordered objects.")
    return finish("C07", "other", rules, t0, tier, explanation, ["hifijson lexes RFC 8259 numbers and strings correctly", "char::escape_default yields \\t \\n \\r \\\\ \\\" for those five characters"])
