"""C14 — every supported data format round-trips on its documented domain: agreement of the first-party
reader and writer tables (structural clauses)."""
import re
import time

from common import Rule, finish
from hirtab import ANY, C, L, T, adt_variants, callees, candidates, lit_value
from hirutil import callee as hir_callee, find, lit_str, strip, walk
from mirutil import Body, op_local, rvalue_reads


def lit_bytes(e):
    e = strip(e)
    if e.get("k") == "Lit":
        l = e["lit"]
        if "bytes" in l:
            return bytes(l["bytes"])
        if "str" in l:
            return l["str"].encode()
        if "byte" in l:
            return bytes([l["byte"]])
        if "char" in l:
            return l["char"].encode()
    return None



def is_field_reader_call(n):
    """the call of the generic field reader: a first-party function of the tabular reader that is given the separator byte, the
    quote/escape byte and a closure (found by its arguments, not by its name)"""
    if n.get("k") != "Call" or not str((strip(n["f"]).get("path") or {}).get("def", "")).startswith("jaq_fmts::read::tabular::"):
        return False
    args = n.get("args", [])
    return len(args) >= 4 and lit_bytes(args[1]) is not None and lit_bytes(args[2]) is not None and strip(args[3]).get("k") == "Closure"

def is_err_expr(e):
    """`Err(..)` or `Err(..)?`"""
    e = strip(e)
    if e.get("k") == "Call" and (strip(e["f"]).get("path") or {}).get("def") == "core::result::Result::Err":
        return True
    if e.get("k") == "Match" and str(e.get("src", "")).startswith("TryDesugar"):
        s = strip(e["scrut"])
        if s.get("k") == "Call" and s["args"]:
            return is_err_expr(s["args"][0])
    return False


def local_array(fn, min_len=2):
    """let x = ["..", ..] arrays of string literals in a function, in source order"""
    out = []
    for s in find(fn["body"], lambda n: n.get("k") == "Let" and n.get("init") is not None and strip(n["init"]).get("k") == "Array"):
        xs = [lit_bytes(x) for x in strip(s["init"])["xs"]]
        if len(xs) >= min_len and all(x is not None for x in xs):
            out.append(xs)
    return out


def rule_stream_error_polled(facts, rid):
    """A reader over a streaming lexer that parks I/O errors in a field (`Option<io::Error>`, polled with `take`) must poll it on
    every way out of the function that produces the next value -- also when the token stream simply ended."""
    import re as _re
    from mirutil import Body as _Body
    r = Rule(rid, "where a reader polls the I/O error parked by its byte source (`Option<io::Error>::take`), every return of that function passes through the poll: "
             "a read error that strikes between two values is reported, not taken for the end of the input", floor=1)
    for crate, body in facts.all_mir():
        if crate not in ("jaq_json", "jaq_fmts", "jaq_all", "jaq") or body.get("test"):
            continue
        b = _Body(body)
        polls = [i for i, t in b.calls() if _re.search(r"core::option::Option::<T>::take$", t.get("fn") or "") and any("Option<std::io::error::Error>" in a for a in t.get("argtys", []))]
        if not polls:
            continue
        seen = b.reachable(0, removed_nodes=polls, unwind=False)
        skipping = [x for x in seen if b.bbs[x]["t"]["k"] == "Return"]
        r.examined(("poll", body["def"]), True, {"fn": body["def"], "polls": len(polls), "returns_that_skip_the_poll": len(skipping)})
        if skipping:
            r.violate(f"unpolled/{body['def']}", f"`{body['def']}` can return without looking at the parked I/O error (an early return, e.g. `?` on the end of the tokens): a failing read at a value boundary ends the input silently", where=b.bbs[polls[0]]["t"]["sp"])
    return r


def run(facts, tier):
    t0 = time.time()
    rules = []

    # ---------------- T14.1 TSV
    t1 = Rule("T14.1", "TSV: the writer's escape table (newline, carriage return, tab, backslash, NUL) is the inverse of the reader's escape table; field separator and escape character agree", floor=7)
    wf = facts.hir_fn("jaq_fmts::write::tabular::write_tsv_str")
    rf = facts.hir_find(r"^jaq_fmts::read::tabular::tsv_field", "jaq_fmts")
    if wf is None or not rf:
        t1.missing_anchor("write_tsv_str / tsv_field")
    else:
        arrs = local_array(wf)
        if len(arrs) != 2 or len(arrs[0]) != len(arrs[1]):
            t1.violate("writer-tables", f"TSV writer: pattern/replacement tables not found or of different length ({[len(a) for a in arrs]})", where=wf["sp"])
        else:
            wmap = dict(zip(arrs[0], arrs[1]))
            # reader: Some(b'n') => push(b'\n')
            rmap = {}
            for f in rf:
                for m in find(f["body"], lambda n: n.get("k") == "Match" and n.get("src") == "Normal"):
                    for a in m["arms"]:
                        ch = [lit_bytes({"k": "Lit", "lit": p["lit"]}) for p in find(a["pat"], lambda n: n.get("k") == "Lit" and "byte" in n.get("lit", {}))]
                        pushes = [n for n in find(a["body"], lambda n: n.get("k") == "MethodCall" and n["m"]["name"] == "push")]
                        if len(ch) == 1 and len(pushes) == 1 and lit_bytes(pushes[0]["args"][0]) is not None:
                            rmap[ch[0]] = lit_bytes(pushes[0]["args"][0])
            esc = None
            for f in rf:
                for call in find(f["body"], is_field_reader_call):
                    sep, esc = lit_bytes(call["args"][1]), lit_bytes(call["args"][2])
                    t1.examined("separators", True, {"reader_separator": repr(sep), "reader_escape_char": repr(esc)})
                    if sep != b"\t":
                        t1.violate("separator", f"TSV reader separates fields by {sep!r}")
            for p, r in wmap.items():
                ok = esc is not None and r[:1] == esc and rmap.get(r[1:]) == p and len(r) == 2
                t1.examined(("escape", p), True, {"byte": repr(p), "written_as": repr(r), "read_back_as": repr(rmap.get(r[1:]))})
                if not ok:
                    t1.violate(f"inverse/{p!r}", f"TSV: the writer turns {p!r} into {r!r} but the reader turns {r!r} into {rmap.get(r[1:])!r}", where=wf["sp"])
            for need in (b"\n", b"\r", b"\t", b"\\"):
                if need not in wmap:
                    t1.violate(f"missing/{need!r}", f"TSV writer does not escape {need!r}: a field containing it would be split or mis-read", where=wf["sp"])
        # delimiter of write_tsv
        wt = facts.hir_fn("jaq_fmts::write::tabular::Row::write_tsv")
        dl = [lit_bytes(n) for n in find(wt["body"], lambda n: n.get("k") == "Lit" and "char" in n["lit"])] if wt else []
        t1.examined("delimiter", True, {"writer_delimiter": [repr(d) for d in dl]})
        if b"\t" not in dl:
            t1.violate("delimiter", f"TSV writer separates fields with {dl}")
    rules.append(t1.finish())

    # ---------------- T14.2 CSV
    t2 = Rule("T14.2", "CSV: text fields are always quoted with the quote doubled, the reader un-doubles it and ends a quoted field on a single quote; separator and quote bytes agree", floor=4)
    wf = facts.hir_fn("jaq_fmts::write::tabular::write_csv_str")
    rf = facts.hir_find(r"^jaq_fmts::read::tabular::csv_field", "jaq_fmts")
    if wf is None or not rf:
        t2.missing_anchor("write_csv_str / csv_field")
    else:
        reps = [n for n in find(wf["body"], lambda n: n.get("k") == "MethodCall" and n["m"]["name"] == "replace")]
        got = tuple(lit_bytes(a) for a in reps[0]["args"]) if len(reps) == 1 else None
        quotes = [x for x in (lit_bytes(n) for n in find(wf["body"], lambda n: n.get("k") == "Lit" and "str" in n["lit"])) if x]
        t2.examined("doubling", True, {"writer_replaces": [repr(g) for g in got] if got else None, "writer_wraps_in": sorted({repr(q) for q in quotes})})
        if got != (b'"', b'""'):
            t2.violate("doubling", f"CSV writer replaces {got}; the quote must be doubled", where=wf["sp"])
        if quotes.count(b'"') < 2:
            t2.violate("wrap", "CSV writer does not wrap text fields in quotes", where=wf["sp"])
        # every write of field content is preceded by the opening quote and followed by the closing quote on all
        # non-error paths (a branch that only chooses *how* the content is written, e.g. a copy-free fast path, is fine;
        # a path that writes content without the quotes is conditional quoting)
        wm = facts.mir_fn("jaq_fmts::write::tabular::write_csv_str")
        if wm is None:
            t2.missing_anchor("write_csv_str (MIR)")
        else:
            mb = Body(wm)
            QUOTE = ('"\\""', 'b"\\""', "'\"'", "b'\"'")

            def const_txt(o):
                return (o.get("k") or {}).get("txt") if isinstance(o, dict) else None
            quote_locals = set()
            for i_, t_ in mb.calls():
                if any(const_txt(a_) in QUOTE for a_ in t_["args"]) and re.search(r"Arguments::<.*>::(from_str|new_const)$|Arguments::from_str$", t_.get("fn") or ""):
                    quote_locals |= mb.derived_from([t_["d"]["l"]])
            writes = mb.find_calls(r"^std::io::Write::(write_fmt|write_all|write)$")
            qwrites = [w_ for w_ in writes if (set(mb.arg_locals(w_)) & quote_locals) or any(const_txt(a_) in QUOTE for a_ in mb.bbs[w_]["t"]["args"])]
            content = [w_ for w_ in writes if w_ not in qwrites]
            errs = set(mb.find_calls(r"FromResidual<.*>>::from_residual$|FromResidual::from_residual$"))
            ok = len(qwrites) >= 2 and bool(content)
            why = ""
            for c_ in content:
                before = [q for q in qwrites if mb.node_dominates(q, c_)]
                after = [q for q in qwrites if q not in before]
                nxt = [t_ for t_, k_ in mb.succ(c_, unwind=False)]
                if not before:
                    ok, why = False, "content is written on a path that has not written the opening quote"
                elif not after or not all(mb.always_reaches(n_, set(after) | errs) for n_ in nxt):
                    ok, why = False, "content is written on a path that does not go on to write the closing quote"
            t2.examined("unconditional", True, {"text_fields_always_quoted": ok, "quote_writes": len(qwrites), "content_writes": len(content)})
            if not ok:
                t2.violate("conditional-quoting", "CSV writer does not quote text fields on every path (" + (why or f"{len(qwrites)} quote writes, {len(content)} content writes") + "): an unquoted field spelled like a number, a boolean or the empty string reads back as another value", where=wm["sp"])
        for f in rf:
            for call in find(f["body"], is_field_reader_call):
                sep, q = lit_bytes(call["args"][1]), lit_bytes(call["args"][2])
                t2.examined("separators", True, {"reader_separator": repr(sep), "reader_quote": repr(q)})
                if sep != b"," or q != b'"':
                    t2.violate("separators", f"CSV reader uses separator {sep!r} and quote {q!r}")
        # un-doubling: Some(b'"') => match next { Some(b'"') => push(b'"') ...
        undouble = False
        for f in rf:
            for m in find(f["body"], lambda n: n.get("k") == "Match" and n.get("src") == "Normal"):
                for a in m["arms"]:
                    if [lit_bytes({"k": "Lit", "lit": p["lit"]}) for p in find(a["pat"], lambda n: n.get("k") == "Lit")] == [b'"']:
                        for m2 in find(a["body"], lambda n: n.get("k") == "Match" and n.get("src") == "Normal"):
                            for a2 in m2["arms"]:
                                if [lit_bytes({"k": "Lit", "lit": p["lit"]}) for p in find(a2["pat"], lambda n: n.get("k") == "Lit")] == [b'"']:
                                    ps = [n for n in find(a2["body"], lambda n: n.get("k") == "MethodCall" and n["m"]["name"] == "push")]
                                    if len(ps) == 1 and lit_bytes(ps[0]["args"][0]) == b'"':
                                        undouble = True
        t2.examined("undouble", True, {"reader_undoubles_quote": undouble})
        if not undouble:
            t2.violate("undouble", "CSV reader does not turn a doubled quote inside a quoted field back into one quote")
        wc = facts.hir_fn("jaq_fmts::write::tabular::Row::write_csv")
        dl = [lit_bytes(n) for n in find(wc["body"], lambda n: n.get("k") == "Lit" and "char" in n["lit"])] if wc else []
        t2.examined("delimiter", True, {"writer_delimiter": [repr(d) for d in dl]})
        if b"," not in dl:
            t2.violate("delimiter", f"CSV writer separates fields with {dl}")
    rules.append(t2.finish())

    # ---------------- T14.3 CBOR
    t3 = Rule("T14.3", "CBOR: every header kind, tag and simple value the encoder emits has an accepting arm in the decoder", floor=10)
    enc = facts.hir_find(r"^jaq_fmts::write::cbor::encode$", "jaq_fmts")
    dec = facts.hir_find(r"^jaq_fmts::read::cbor::parse$", "jaq_fmts")
    H = "ciborium_ll::hdr::Header"
    if len(enc) != 1 or len(dec) != 1:
        t3.missing_anchor("write::cbor::encode / read::cbor::parse")
    else:
        emitted = set()
        for n in find(enc[0]["body"], lambda n: n.get("k") == "Call" and ((strip(n["f"]).get("path") or {}).get("def") or "").startswith(H + "::")):
            kind = strip(n["f"])["path"]["def"].split("::")[-1]
            arg = strip(n["args"][0]) if n["args"] else {}
            sub = None
            if kind in ("Simple", "Tag"):
                mod = "simple::" if kind == "Simple" else "tag::"
                consts = [(x["path"].get("def") or "").split("::")[-1] for x in find(arg, lambda x: x.get("k") == "Path" and "def" in x["path"] and mod in x["path"]["def"])]
                if not consts:
                    # the constant reaches the constructor through a local: take every constant of that kind in the encoder
                    consts = [(x["path"].get("def") or "").split("::")[-1] for x in find(enc[0]["body"], lambda x: x.get("k") == "Path" and "def" in x["path"] and ("ciborium_ll::" + mod.rstrip(":")) in x["path"]["def"].replace("::hdr", ""))]
                for c in consts or [None]:
                    emitted.add((kind, c))
            else:
                emitted.add((kind, None))
        for n in find(enc[0]["body"], lambda n: n.get("k") == "MethodCall" and n["m"]["name"] in ("text", "bytes") and "Encoder" in n.get("recv_ty", "")):
            emitted.add(("Text" if n["m"]["name"] == "text" else "Bytes", None))
        m = [mm for mm in find(dec[0]["body"], lambda n: n.get("k") == "Match" and n.get("src") == "Normal" and "Header" in n["scrut_ty"])]
        accepted = set()
        if not m:
            t3.missing_anchor("match on Header in cbor::parse")
        else:
            for a in m[0]["arms"]:
                p = a["pat"]
                if p["k"] not in ("TupleStruct", "Path"):
                    continue
                kind = (p["path"].get("def") or "").split("::")[-1]
                if is_err_expr(a["body"]):
                    continue
                subs = [((x.get("path") or {}).get("def") or "").split("::")[-1] for x in find(p, lambda x: x.get("k") == "Path" and ("simple::" in str((x.get("path") or {}).get("def")) or "tag::" in str((x.get("path") or {}).get("def"))))]
                if subs:
                    for s in subs:
                        accepted.add((kind, s))
                elif p["k"] == "TupleStruct" and p["pats"] and p["pats"][0]["k"] == "Bind" and kind in ("Simple", "Tag"):
                    accepted.add((kind, "*"))
                else:
                    accepted.add((kind, None))
            for k in sorted(emitted, key=str):
                ok = k in accepted or (k[0], "*") in accepted
                t3.examined(k, True, {"emitted": list(k), "decoder_accepts": ok})
                if not ok:
                    t3.violate(f"kind/{k[0]}/{k[1]}", f"the CBOR encoder emits {k} but the decoder has no accepting arm for it", where=dec[0]["sp"])
        if len(emitted) < 10:
            t3.violate("emitted", f"only {len(emitted)} emitted header kinds found")
    rules.append(t3.finish())

    # ---------------- T14.4 XML keys
    t4 = Rule("T14.4", "XML: every object key the reader produces is a key the writer accepts (the attribute map of the XML declaration is free-form)", floor=10)
    FREE = {"version", "encoding", "standalone"}
    rkeys = set()
    for f in facts.hir_find(r"^jaq_fmts::read::xml::", "jaq_fmts"):
        for n in find(f["body"], lambda n: n.get("k") == "Tup" and len(n["xs"]) == 2 and lit_str(strip(n["xs"][0])) is not None):
            rkeys.add(lit_str(strip(n["xs"][0])))
        for n in find(f["body"], lambda n: n.get("k") == "Call" and "singleton" in str((strip(n["f"]).get("path") or {}).get("def") or (strip(n["f"]).get("path") or {}).get("local"))):
            if n["args"] and lit_str(strip(n["args"][0])) is not None:
                rkeys.add(lit_str(strip(n["args"][0])))
    wkeys = set()
    for f in facts.hir_find(r"jaq_fmts::write::xml::", "jaq_fmts"):
        for m in find(f["body"], lambda n: n.get("k") == "Match"):
            for a in m["arms"]:
                for p in find(a["pat"], lambda n: n.get("k") == "Lit" and "bytes" in n.get("lit", {})):
                    wkeys.add(bytes(p["lit"]["bytes"]).decode(errors="replace"))
    if len(rkeys) < 10 or len(wkeys) < 10:
        t4.missing_anchor(f"XML key literals (reader {len(rkeys)}, writer {len(wkeys)})")
    for k in sorted(rkeys):
        ok = k in wkeys or k in FREE
        t4.examined(k, True, {"reader_key": k, "writer_accepts": ok})
        if not ok:
            t4.violate(f"key/{k}", f"the XML reader produces objects with key `{k}` that the XML writer does not accept: fromxml | toxml fails")
    # scalars: the writer takes tag names, attribute values and the parts of declarations as text only, so the reader must
    # not produce booleans or numbers (e.g. `standalone` as true)
    nconv = 0
    for j_ in facts.mir("jaq_fmts"):
        if not (j_["def"].startswith("jaq_fmts::read::xml::") or (j_.get("root") or "").startswith("jaq_fmts::read::xml::")) or j_.get("test"):
            continue
        b_ = Body(j_)
        for i_, t_ in b_.calls():
            if re.search(r"convert::(Into::into|From::from)$", t_.get("fn") or "") and (t_.get("gargs") or ["", ""])[-1] == "jaq_json::Val" or (re.search(r"convert::From::from$", t_.get("fn") or "") and (t_.get("gargs") or [""])[0] == "jaq_json::Val"):
                src = [g_ for g_ in (t_.get("gargs") or []) if g_ != "jaq_json::Val"]
                src = src[0] if src else "?"
                nconv += 1
                if re.match(r"^(bool|[iu]\d+|[iu]size|f32|f64)$", src):
                    t4.violate(f"scalar/{src}", f"the XML reader turns a `{src}` into a value (`{j_['def']}`): the writer accepts only text for tags, attributes and declarations, so such a document cannot be written back (`standalone=\"yes\"` read as true is rejected by toxml)", where=t_["sp"])
    t4.examined("reader-scalars", True, {"conversions_into_values_in_the_xml_reader": nconv})
    # attribute values are written between quotation marks they do not contain
    for fdef in (r"^<jaq_fmts::write::xml::Xml<.*> as core::fmt::Display>::fmt$", r"^jaq_fmts::write::xml::Xml::<.*>::write$"):
        fs_ = facts.hir_find(fdef, "jaq_fmts")
        if len(fs_) != 1:
            t4.missing_anchor(fdef)
            continue
        def chooses_quote(n):
            if n.get("k") != "If" or not any(re.search(r"::(contains|find_byte|memchr|find)$", c_) for c_ in callees(n["c"])):
                return False
            lits = {lit_bytes(x) for x in find([n.get("t"), n.get("f")], lambda y: y.get("k") == "Lit")}
            return b"'" in lits and b'"' in lits
        quote_choice = [n for n in find(fs_[0]["body"], chooses_quote)]
        t4.examined(("attr-quotes", fs_[0]["def"]), True, {"writer": fs_[0]["def"].split("::")[-1], "quote_chosen_by_value": bool(quote_choice)})
        if not quote_choice:
            t4.violate("attr-quotes", f"`{fs_[0]['def']}` writes attribute values between fixed quotation marks: a value read from `x='say \"hi\"'` contains that mark and the output does not parse", where=fs_[0]["sp"])
    # external identifiers of a DOCTYPE keep their quotation marks (the writer emits the `external` text verbatim)
    dt = facts.hir_find(r"^jaq_fmts::read::xml::doctype$", "jaq_fmts")
    if len(dt) != 1:
        t4.missing_anchor("jaq_fmts::read::xml::doctype")
    else:
        bodies_ = [dt[0]["body"]] + [facts.hir_fn(c_)["body"] for c_ in callees(dt[0]["body"]) if c_.startswith("jaq_fmts::read::xml::") and facts.hir_fn(c_) is not None]
        lits_ = [lit_bytes(x) or b"" for x in find(bodies_, lambda y: y.get("k") == "Lit")]
        quotes = any(b'"' in l_ or b"'" in l_ for l_ in lits_)
        t4.examined("doctype-external", True, {"external_identifier_literals_requoted": quotes})
        if not quotes:
            t4.violate("doctype-external", "the XML reader builds the `external` text of a DOCTYPE from the bare literals (`SYSTEM x.dtd`): the writer emits it verbatim and the result does not parse", where=dt[0]["sp"])
    rules.append(t4.finish())

    # ---------------- T14.5 YAML literals
    t5 = Rule("T14.5", "YAML: every plain scalar that the reader resolves to something other than a string (null, booleans, .nan, .inf spellings, ~) is in the writer's must-quote set, so a string spelled like it is quoted when written", floor=15)
    rp = facts.hir_find(r"^jaq_fmts::read::yaml::parse_plain_scalar$", "jaq_fmts")
    rfl = facts.hir_find(r"^jaq_fmts::read::yaml::parse_float$", "jaq_fmts")
    mq = facts.hir_fn("jaq_fmts::write::yaml::must_quote")
    if len(rp) != 1 or mq is None or len(rfl) != 1:
        t5.missing_anchor("yaml::parse_plain_scalar / parse_float / must_quote")
    else:
        special = set()
        m = [mm for mm in find(rp[0]["body"], lambda n: n.get("k") == "Match" and n.get("src") == "Normal")]
        for a in m[0]["arms"]:
            p = a["pat"]
            if p["k"] != "Tuple":
                continue
            strs = [x["lit"]["str"] for x in find(p["pats"][0], lambda n: n.get("k") == "Lit" and "str" in n.get("lit", {}))]
            # arms that apply to untagged scalars: the tag pattern admits None
            tagp = p["pats"][1]
            admits_none = bool(find(tagp, lambda n: n.get("k") == "Path" and str((n.get("path") or {}).get("def", "")).endswith("Option::None"))) or tagp["k"] in ("Wild", "Bind")
            if strs and admits_none:
                special |= set(strs)
        for n in find(rfl[0]["body"], lambda n: n.get("k") == "Match"):
            for a in n["arms"]:
                special |= {x["lit"]["str"] for x in find(a["pat"], lambda n: n.get("k") == "Lit" and "str" in n.get("lit", {}))}
        quoted = set()
        # literals written in must_quote itself and in the constants (tables of spellings) it refers to
        mq_sources = [mq["body"]]
        for n in find(mq["body"], lambda n: n.get("k") == "Path" and str((n["path"].get("dk") or "")).startswith(("Const", "Static", "AssocConst"))):
            cf = facts.hir_fn(n["path"].get("def") or "")
            if cf is not None and str(n["path"].get("def", "")).startswith("jaq_fmts::"):
                mq_sources.append(cf["body"])
        for n in find(mq_sources, lambda n: n.get("k") == "Lit"):
            b = lit_bytes(n)
            if b:
                quoted.add(b.decode(errors="replace"))
        for pat in find(mq["body"], lambda n: n.get("k") == "Lit" and n.get("lit") and False):
            pass
        for mm in find(mq["body"], lambda n: n.get("k") == "Match"):
            for a in mm["arms"]:
                for x in find(a["pat"], lambda n: n.get("k") == "Lit"):
                    b = lit_bytes({"k": "Lit", "lit": x["lit"]})
                    if b:
                        quoted.add(b.decode(errors="replace"))
        for s in sorted(special):
            ok = s in quoted
            t5.examined(s, True, {"reader_special_scalar": s, "writer_quotes_it": ok})
            if not ok:
                t5.violate(f"literal/{s}", f"the YAML reader resolves the plain scalar `{s}` to a non-string, but the writer would print the string \"{s}\" unquoted: it reads back as another value")
        if len(special) < 12:
            t5.violate("anchor", f"only {len(special)} special scalar spellings found in the YAML reader")
        # numbers: the writer over-approximates `looks like a number`: some closure of must_quote is a disjunction one of
        # whose alternatives is *just* "the first byte is an ASCII digit" (no further conjunct that would narrow it)
        inits = {}
        for st in find(mq["body"], lambda n: n.get("k") == "Let" and n.get("init") is not None):
            for b_ in find(st["pat"], lambda n: n.get("k") == "Bind"):
                inits[b_["id"]] = st["init"]

        def mentions_digit(e, depth=0):
            names = callees(e) + [str((n.get("path") or {}).get("def")) for n in find(e, lambda n: n.get("k") == "Path")]
            if any(x.endswith("is_ascii_digit") for x in names):
                return True
            if depth < 2:
                for n in find(e, lambda n: n.get("k") == "Path" and n["path"].get("id") in inits):
                    if mentions_digit(inits[n["path"]["id"]], depth + 1):
                        return True
            return False

        def disjuncts(e):
            e = strip(e)
            if e.get("k") == "Binary" and e["op"] == "||":
                return disjuncts(e["l"]) + disjuncts(e["r"])
            return [e]
        ok = False
        for c in find(mq["body"], lambda n: n.get("k") == "Closure"):
            for d in disjuncts(c["body"]):
                if mentions_digit(d) and any(x.endswith("::first") for x in callees(d)) and not find(d, lambda n: n.get("k") == "Binary" and n["op"] == "&&") \
                        and not any(x.split("::")[-1] in ("all", "any", "iter", "bytes") for x in callees(d)):
                    ok = True
        # signs: every sign character the reader's number parsers accept must be stripped by the writer's number test
        ps = facts.hir_find(r"^jaq_fmts::read::yaml::parse_sign$", "jaq_fmts")
        rsigns = set()
        for f in ps:
            for n in find(f["body"], lambda n: n.get("k") == "Lit" and "char" in n.get("lit", {})):
                rsigns.add(n["lit"]["char"])
            for m in find(f["body"], lambda n: n.get("k") == "Match"):
                for a in m["arms"]:
                    for x in find(a["pat"], lambda n: n.get("k") == "Lit" and "char" in n.get("lit", {})):
                        rsigns.add(x["lit"]["char"])
        wsigns = set()
        for n in find(mq["body"], lambda n: n.get("k") == "MethodCall" and n["m"]["name"] in ("strip_prefix", "starts_with")):
            for a in n["args"]:
                b_ = lit_bytes(a)
                if b_ and len(b_) == 1:
                    wsigns.add(b_.decode())
        for m in find(mq["body"], lambda n: n.get("k") == "Match"):
            for a in m["arms"]:
                for x in find(a["pat"], lambda n: n.get("k") == "Lit" and "byte" in n.get("lit", {})):
                    wsigns.add(chr(x["lit"]["byte"]))
        if not rsigns:
            t5.violate("signs-anchor", "sign characters of the YAML reader's number parsers not found (parse_sign)")
        for sg in sorted(rsigns):
            okk = sg in wsigns
            t5.examined(("sign", sg), True, {"reader_accepts_sign": sg, "writer_number_test_strips_it": okk})
            if not okk:
                t5.violate(f"sign/{sg}", f"the YAML reader parses plain scalars with a leading `{sg}` as numbers, but the writer's looks-like-a-number test does not consider that sign: the string \"{sg}1\" is written unquoted and reads back as a number")
        t5.examined("numbers", True, {"strings_starting_like_a_number_are_quoted": ok})
        if not ok:
            t5.violate("numbers", "must_quote no longer quotes strings that start like a number")
    # what a plain scalar may not look like at its ends: the reader strips trailing white space and takes `--- x` / `... x`
    # at the start of a line for a document marker
    mq = facts.hir_fn("jaq_fmts::write::yaml::must_quote")
    if mq is not None:
        helpers_ = [c_ for c_ in callees(mq["body"]) if c_.startswith("jaq_fmts::write::yaml::") and c_ != mq["def"]]
        recog = [facts.mir_fn(h_) for h_ in helpers_ if facts.mir_fn(h_) is not None and facts.mir_fn(h_)["locals"][0]["ty"] == "bool"]
        if not recog:
            t5.missing_anchor("the plain-scalar recogniser called by must_quote")
        for rj in recog:
            accepts = [s_ for bb_ in rj["bbs"] if not bb_.get("cleanup") for s_ in bb_["st"] if s_.get("k") == "A" and s_["p"]["l"] == 0 and not s_["p"].get("pr")
                       and s_["r"].get("k") == "Use" and (s_["r"]["o"].get("k") or {}).get("v") in (True, 1)]
            t5.examined(("ends", rj["def"]), True, {"recogniser": rj["def"], "unconditional_accepts": len(accepts)})
            if accepts:
                t5.violate("trailing-blank", f"`{rj['def']}` accepts a scalar without a final test (it returns the constant `true` after scanning): a string that ends in white space is written plain and read back without it (`\"a \" | toyaml | fromyaml` gives `\"a\"`, `\"null \"` gives null)", where=accepts[0].get("sp"))
        marks = [n for n in find(mq["body"], lambda n: n.get("k") in ("Call", "MethodCall") and ("starts_with" in (hir_callee(n) or "") or "strip_prefix" in (hir_callee(n) or "")) and any(lit_bytes(x) in (b"---", b"...") for x in find(n.get("args", []), lambda y: y.get("k") == "Lit")))]
        t5.examined("doc-marker-prefix", True, {"document_markers_tested_as_prefix": len(marks)})
        if len(marks) < 2:
            t5.violate("doc-marker-prefix", "must_quote recognises the document markers `---` and `...` only as whole strings: `--- a` is written plain and read back as the start of a new document (`\"--- a\" | toyaml | fromyaml` gives `\"a\"`)", where=mq["sp"])
    rules.append(t5.finish())

    # ---------------- T14.6 domain errors
    t6 = Rule("T14.6", "values outside a format's domain are rejected by the writer: CSV/TSV rows accept only scalar fields, TOML rejects null, byte strings and non-string keys", floor=2)
    rowf = facts.hir_find(r"^<jaq_fmts::write::tabular::Row as core::convert::TryFrom<&jaq_json::Val>>::try_from", "jaq_fmts")
    if not rowf:
        t6.missing_anchor("TryFrom<&Val> for Row")
    else:
        ms = []
        for f in rowf:
            ms += [m for m in find(f["body"], lambda n: n.get("k") == "Match" and n.get("src") == "Normal" and "jaq_json::Val" in n["scrut_ty"])]
        vv = adt_variants(facts, "jaq_json::Val")
        if ms:
            acc = set()
            for name, nf in vv:
                cs = candidates(ms[0]["arms"], C(f"jaq_json::Val::{name}", *([ANY] * nf)))
                if cs and cs[-1][1] == "sure":
                    b = strip(ms[0]["arms"][cs[-1][0]]["body"])
                    is_ok = b.get("k") == "Call" and (strip(b["f"]).get("path") or {}).get("def") == "core::result::Result::Ok"
                    if is_ok:
                        acc.add(name)
            t6.examined("row-fields", True, {"accepted_field_kinds": sorted(acc)})
            if acc != {"Null", "Bool", "Num", "TStr"}:
                t6.violate("row-fields", f"table rows accept field kinds {sorted(acc)}; only null, booleans, numbers and text strings are representable")
        else:
            t6.violate("row-anchor", "field table of Row::try_from not found")
    tv = facts.hir_find(r"^jaq_fmts::write::toml::", "jaq_fmts")
    rej = set()
    for f in tv:
        for m in find(f["body"], lambda n: n.get("k") == "Match" and n.get("src") == "Normal" and "jaq_json::Val" in n["scrut_ty"]):
            for a in m["arms"]:
                if is_err_expr(a["body"]):
                    for p in find(a["pat"], lambda n: n.get("k") in ("TupleStruct", "Path") and str((n.get("path") or {}).get("def", "")).startswith("jaq_json::Val::")):
                        rej.add(p["path"]["def"].split("::")[-1])
    t6.examined("toml-reject", True, {"toml_rejects": sorted(rej)})
    if not {"Null", "BStr"} <= rej:
        t6.violate("toml-reject", f"the TOML writer rejects {sorted(rej)}; null and byte strings have no TOML representation and must be rejected")
    rules.append(t6.finish())


    # ---------------- T14.10 TOML keys
    t10 = Rule("T14.10", "TOML: a key is written bare only if it is non-empty and consists of bare-key characters; the test for bare-key characters (`all(..)`, vacuously true "
               "for the empty string) is accompanied by an emptiness test, otherwise the empty key is written as nothing and the document does not parse", floor=1)
    kf = facts.hir_find(r"^<jaq_fmts::write::toml::Key<.*> as core::fmt::Display>::fmt$", "jaq_fmts")
    if len(kf) != 1:
        t10.missing_anchor("Display for toml::Key")
    else:
        ifs = [n for n in find(kf[0]["body"], lambda n: n.get("k") == "If")]
        ok = False
        for n in ifs:
            cl_ = callees(n["c"])
            if any(re.search(r"Iterator>?::all$", c_) for c_ in cl_):
                ok = any(re.search(r"::(is_empty|len|first|split_first|last)$", c_) for c_ in cl_)
                t10.examined("bare-key", True, {"bare_key_test_checks_emptiness": ok})
                if not ok:
                    t10.violate("empty-key", "the TOML writer decides `bare key` with `all(is bare character)` alone, which holds for the empty key: `{\"\": 1} | totoml` writes ` = 1`, which is not TOML", where=n["sp"])
        if not ifs or not any(any(re.search(r"Iterator>?::all$", c_) for c_ in callees(n["c"])) for n in ifs):
            t10.missing_anchor("the bare-key test in Display for toml::Key")
    rules.append(t10.finish())

    # ---------------- T14.7 clamped lengths are allocation hints only
    t7 = Rule("T14.7", "in the format readers a declared length that has been clamped (`min`/`clamp` against a bound) is used only as an allocation hint "
              "(with_capacity / reserve), never as the bound of the element loop, an element count (take/nth/skip) or the function's result: containers longer than the bound "
              "are truncated or mis-framed when read back", floor=3)
    HINT = re.compile(r"::(with_capacity|with_capacity_in|reserve|reserve_exact|try_reserve|try_reserve_exact)$")
    nbodies = 0
    for f in facts.mir_find(r"^jaq_fmts::read::|^jaq_json::read::", None):
        b = Body(f)
        nbodies += 1
        for i in b.find_calls(r"::(min|clamp)$"):
            t = b.bbs[i]["t"]
            if not any("k" in a for a in t["args"][1:]):
                continue  # no constant bound: not a clamp against a fixed capacity
            al = {t["d"]["l"]}
            bad, other = [], []  # `other` uses (chunked copying and the like) are reported in the evidence, not as violations
            changed = True
            while changed:
                changed = False
                for bb in b.bbs:
                    for s_ in bb["st"]:
                        if s_.get("k") != "A":
                            continue
                        reads = rvalue_reads(s_["r"])
                        if not (set(reads) & al):
                            continue
                        if s_["r"]["k"] == "Use" and not s_["p"].get("pr"):
                            if s_["p"]["l"] == 0:
                                bad.append("returned")
                            elif s_["p"]["l"] not in al:
                                al.add(s_["p"]["l"])
                                changed = True
                        elif s_["r"]["k"] == "Agg" and "core::ops::range::Range" in (s_["r"].get("ak") or ""):
                            bad.append("a loop bound")
                        elif s_["r"]["k"] == "Agg" and s_["p"]["l"] == 0:
                            bad.append("returned")
                        else:
                            other.append(s_["r"]["k"])
            for j, tt in b.calls():
                if j == i:
                    continue
                if any(op_local(a) in al for a in tt["args"]):
                    c = Body.callee(tt) or "?"
                    if re.search(r"Iterator::(take|nth|skip|step_by)$|::repeat_n$", c) or re.search(r"Iterator::(take|nth|skip|step_by)$", tt.get("fn") or ""):
                        bad.append("the element count of " + c.split("::")[-1])
                    elif not HINT.search(c) and not HINT.search(tt.get("fn") or ""):
                        other.append("passed to " + c)
            for bb in b.bbs:
                tt = bb["t"]
                if tt["k"] == "Switch" and op_local(tt["o"]) in al:
                    other.append("branched on")
            if t["d"]["l"] == 0:
                bad.append("returned")
            t7.examined((f["def"], i), True, {"fn": f["def"], "clamp": t.get("fn"), "uses": sorted(set(bad + other)) or ["allocation hint only"]})
            if bad:
                t7.violate(f"{f['def']}", f"{f['def']}: a length clamped by `{(t.get('fn') or '').split('::')[-1]}` is {', '.join(sorted(set(bad)))}; only the allocation may be bounded, the element count must stay the declared one", where=t.get("sp") or f.get("sp"))
    if nbodies < 20:
        t7.missing_anchor(f"reader bodies (found {nbodies})")
    rules.append(t7.finish())

    # ---------------- T14.8 CBOR negative integers are written as -1-n
    t8 = Rule("T14.8", "CBOR: a negative integer -1-n is written with argument n: every `Header::Negative(x)` the encoder builds has an x that comes out of an adjustment by one "
              "(add/subtract 1, bitwise not) of the magnitude, as the decoder's `!n` undoes (writing the magnitude itself is off by one)", floor=1)

    def adjusts(b):
        """locals that hold the result of an adjustment by one"""
        out = set()
        for bb_ in b.bbs:
            for s_ in bb_["st"]:
                if s_.get("k") != "A":
                    continue
                r_ = s_["r"]
                if r_.get("k") == "Bin" and re.sub("WithOverflow|Unchecked", "", r_["op"]) in ("Add", "Sub") and any((o_.get("k") or {}).get("v") == 1 for o_ in (r_["a"], r_["b"])):
                    out.add(s_["p"]["l"])
                if r_.get("k") == "Un" and r_["op"] == "Not":
                    out.add(s_["p"]["l"])
                if r_.get("k") == "Bin" and r_["op"] == "BitXor":
                    out.add(s_["p"]["l"])
        for i_, t_ in b.calls():
            if re.search(r"::(checked|wrapping|saturating|overflowing)_(add|sub)$", t_.get("fn") or "") and any((a_.get("k") or {}).get("v") == 1 for a_ in t_["args"]):
                out.add(t_["d"]["l"])
        return out
    enc = [j for j in facts.mir("jaq_fmts") if re.match(r"^jaq_fmts::write::cbor::", j["def"]) and not j.get("test")]
    adjusting_closures = set()
    for j in enc:
        b_ = Body(j)
        if "{closure" in j["def"] and 0 in b_.derived_from(adjusts(b_)):
            adjusting_closures.add(j["def"])
    nneg = 0
    for j in enc:
        b_ = Body(j)
        adj = adjusts(b_)
        # results of calls of an adjusting closure of the same function
        clos_locals = {s_["p"]["l"] for bb_ in b_.bbs for s_ in bb_["st"] if s_.get("k") == "A" and s_["r"].get("k") == "Agg" and (s_["r"].get("ak") or "")[len("Closure:"):] in adjusting_closures}
        for i_, t_ in b_.calls():
            if re.search(r"core::ops::function::Fn(Once|Mut)?::call", t_.get("fn") or "") and set(b_.ref_roots(b_.arg_locals(i_, 0))) & clos_locals:
                adj.add(t_["d"]["l"])
        good = b_.derived_from(adj)
        for bb_ in b_.bbs:
            for s_ in bb_["st"]:
                if s_.get("k") == "A" and s_["r"].get("k") == "Agg" and s_["r"].get("variant") == "Negative" and "Header" in (s_["r"].get("ak") or ""):
                    nneg += 1
                    x_ = op_local(s_["r"]["ops"][0])
                    ok = x_ in good
                    t8.examined(("negative", s_.get("sp")), True, {"negative_header_argument_adjusted_by_one": ok})
                    if not ok:
                        t8.violate("negative-argument", "the CBOR encoder builds `Header::Negative(x)` from a value that was not adjusted by one: -1-n must be written with argument n, the magnitude itself reads back one too small", where=s_.get("sp"))
    if not nneg:
        t8.missing_anchor("construction of Header::Negative in the CBOR encoder")
    rules.append(t8.finish())

    # ---------------- T14.9 writers do not drop parts of a value
    t9 = Rule("T14.9", "the first-party writers never filter the parts of the value they write: no `filter`, `filter_map`, `skip*`, `take*`, `step_by`, `flatten` over an iterator of values/elements "
              "and no `Option::filter` on an element in the writer modules (a part that does not fit must be an error, as for the other out-of-domain values; dropped silently it does not read back)", floor=40)
    DROP = re.compile(r"^core::iter::traits::iterator::Iterator::(filter|filter_map|skip|skip_while|take|take_while|step_by|flatten|map_while)$|^core::option::Option::<T>::filter$")
    VALUEISH = re.compile(r"jaq_json::Val|jaq_fmts::write::xml::Xml|toml_span::|toml::|Value|jaq_fmts::write::tabular::")
    nb = 0
    for crate_ in ("jaq_fmts", "jaq_json"):
        for j_ in facts.mir(crate_):
            if not re.match(r"^<?(jaq_fmts::write::|jaq_json::write::)", j_["def"]) and not re.match(r"^<?(jaq_fmts::write::|jaq_json::write::)", j_.get("root") or "") or j_.get("test"):
                continue
            nb += 1
            b_ = Body(j_)
            for i_, t_ in b_.calls():
                fn_ = t_.get("fn") or ""
                if DROP.search(fn_):
                    tys = " ".join(t_.get("gargs") or []) + " " + " ".join(t_.get("argtys") or [])
                    if VALUEISH.search(tys):
                        t9.violate(f"drop/{j_['def'].split('::{closure')[0]}/{fn_.split('::')[-1]}", f"`{j_['def']}` applies `{fn_.split('::')[-1]}` to parts of the value being written ({tys[:80]}): what is filtered out is silently missing from the output", where=t_["sp"])
            t9.examined(j_["def"], False)
    t9.instances = nb
    t9.nontrivial = {("bodies", nb)} if nb else set()
    rules.append(t9.finish())

    # ---------------- T14.11 readers do not turn a parse error into end of input / a default
    t11 = Rule("T14.11", "the first-party readers never discard a parse error: no `Result::ok`, `unwrap_or*` on a result of the format's scanner/parser in the reader modules, except "
               "the reviewed probe `is this field a number` of the tabular reader (a swallowed error ends the stream silently: the rest of the input is lost, with --in-place the file is truncated)", floor=1)
    REVIEWED_OK = {("jaq_json::read::parse_single_num", "ok"): "probing whether the text of a CSV/TSV field is a number; on failure the field is a string"}
    nread = 0
    for crate_ in ("jaq_fmts", "jaq_json"):
        for j_ in facts.mir(crate_):
            if j_.get("test") or not re.search(r"::read::", j_["def"]):
                continue
            nread += 1
            b_ = Body(j_)
            for i_, t_ in b_.calls():
                m_ = re.search(r"^core::result::Result::<T, E>::(ok|unwrap_or_default|unwrap_or|unwrap_or_else|is_ok|is_err)$", t_.get("fn") or "")
                if not m_:
                    continue
                ety = (t_.get("gargs") or ["", ""])[-1]
                if re.search(r"core::num::|ParseIntError|ParseFloatError|Utf8Error|TryFromIntError|Infallible", ety):
                    continue   # conversions of scalars, not the format's parser
                key = (j_["def"].split("::{closure")[0], m_.group(1))
                t11.examined((key, t_["sp"]), True, {"fn": key[0], "discards_with": key[1], "error_type": ety[:60], "reviewed": key in REVIEWED_OK})
                if key not in REVIEWED_OK:
                    t11.violate(f"discard/{key[0]}/{key[1]}", f"`{j_['def']}` discards a `{ety[:60]}` with `{key[1]}`: a malformed document is taken for the end of the input (or a default) instead of being reported", where=t_["sp"])
    if nread < 40:
        t11.missing_anchor(f"reader bodies ({nread} found)")
    rules.append(t11.finish())

    # ---------------- T14.13 nested printing options derive from the caller's
    t13 = Rule("T14.13", "a writer that was handed printing options (`write::Pp`) builds the options for nested parts (keys, compact sub-values) by struct update from the options it was handed "
               "(`Pp { indent: None, ..pp.clone() }`), never from `Default::default()`: otherwise caller-chosen fields (separator blank, key order, styles) are silently reset inside", floor=4)
    takes_pp = set()
    for crate_ in ("jaq_json", "jaq_fmts"):
        for mb in facts.mir(crate_):
            if any("write::Pp" in l_["ty"] for l_ in mb["locals"][1:1 + mb.get("argc", 0)]):
                takes_pp.add(mb["def"])
    for crate_ in ("jaq_json", "jaq_fmts"):
        for f_ in facts.hir(crate_):
            if f_["def"] not in takes_pp or f_.get("test"):
                continue
            for st in find(f_["body"], lambda n: n.get("k") == "Struct" and re.match(r"^jaq_json::write::Pp(<|$)", n.get("ty") or "")):
                base = strip(st["base"]) if st.get("base") else None
                from_default = base is not None and any(re.search(r"Default::default$|Default>::default$", c_) for c_ in callees(base)) and not any("Clone" in c_ for c_ in callees(base))
                complete = base is None   # all fields written out: decided field by field by the compiler
                t13.examined(("pp", f_["def"], st["sp"]), True, {"fn": f_["def"], "derived_from_received_options": not from_default and not complete, "all_fields_explicit": complete})
                if from_default:
                    t13.violate(f"pp-default/{f_['def']}", f"`{f_['def']}` builds nested printing options from `Default::default()` instead of the options it was handed: fields it does not repeat (e.g. the blank after `:`) are reset for the nested part", where=st["sp"])
    rules.append(t13.finish())

    # ---------------- T14.12 parked I/O errors are polled on every return (shared with C17 E17.10)
    rules.append(rule_stream_error_polled(facts, "T14.12").finish())

    explanation = ("Full round trips for all values are value-level and not decided (known gaps found by reading are listed in DESIGN.md D8). Decided: the first-party reader and writer tables agree "
                   "(TSV and CSV escapes are mutual inverses, CBOR kinds, XML keys, YAML special literals, domain errors), extracted from the typed HIR.")
    return finish("C14", "other", rules, t0, tier, explanation, ["third-party lexers/encoders (saphyr, xmlparser, ciborium, toml-span) implement their formats"])
