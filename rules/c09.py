"""C09 — integer arithmetic is exact at any size; operators follow the manual's rules (structural clauses).
N9.1 here; the result-kind tables T9.2 and the representation-independence rule P9.3 live in c09_tables."""
import re
import time

from c05 import taint_rules
from common import Rule, finish

MOD = re.compile(r"^(<)?jaq_json::")


def run(facts, tier):
    t0 = time.time()
    rules = []
    r, T = taint_rules(facts, "N9.1", "in the number/value crate no raw machine operator (+ - * % neg abs, lossy cast) is applied to the payload of an integer value: all go through checked_* with big-integer fallback, so results are exact at any size", lambda d: MOD.match(d) is not None, 300)
    rules.append(r)
    try:
        import c09_tables
        rules.extend(c09_tables.rules(facts))
    except ImportError:
        pass
    explanation = ("Exactness of big-integer arithmetic itself is num-bigint's; decided here: machine-integer arithmetic on value payloads is checked with big-integer fallback (taint dataflow), "
                   "the result-kind tables of + - * / % on numbers, and that every consumer matching the machine representation also handles the big one.")
    return finish("C09", "other", rules, t0, tier, explanation, ["num-bigint arithmetic is exact", "taint propagation stops at unknown calls"])
