"""C19 — a compiled filter is immutable shared data: concurrent runs equal isolated runs.
Static part: Send+Sync witnesses, deep immutability of the term table, no shared mutable state in
first-party crates, no unsafe, no hash-order iteration."""
import collections
import os
import re
import shutil
import time

from common import CACHE, FIRST_PARTY, REPO, Rule, VERIF, finish, sh
from mono import Mono

# containers whose own fields are not walked (their soundness is std's); their type arguments are
TRUSTED = {"alloc::vec::Vec", "alloc::boxed::Box", "alloc::string::String", "core::option::Option", "core::result::Result",
           "core::marker::PhantomData", "core::ops::range::Range", "alloc::borrow::Cow", "alloc::alloc::Global"}
FORBIDDEN_ADT = re.compile(r"^(core::cell::|core::sync::atomic::|std::sync::|alloc::rc::|alloc::sync::Weak|std::thread::|once_cell::|std::cell::|core::mem::maybe_uninit|core::mem::manually_drop)")
ROOTS = ["jaq_core::compile::Filter", "jaq_core::compile::Lut", "jaq_core::compile::Term", "jaq_core::compile::TermId", "jaq_core::compile::Pattern",
         "jaq_core::compile::Fold", "jaq_core::compile::CallType", "jaq_core::compile::Bind", "jaq_core::path::Path", "jaq_core::path::Part", "jaq_core::path::Opt",
         "jaq_core::Bind", "jaq_core::filter::Native", "jaq_core::ops::Math", "jaq_core::ops::Cmp"]


def doctests(crate_dir, name):
    """Run the witness doc-tests (type checking only). Returns (ok, results, log)."""
    # instantiate the witness crate against the repository under analysis (path dependencies)
    import hashlib
    from common import Lock
    tag = hashlib.sha1(REPO.encode()).hexdigest()[:8]
    work = os.path.join(CACHE, f"witness-{name}-{tag}")
    os.makedirs(CACHE, exist_ok=True)
    # one witness build at a time (shared target directory); concurrent checks of other trees use other work directories
    with Lock(os.path.join(CACHE, "witness.lock")):
        for attempt in range(3):
            shutil.rmtree(work, ignore_errors=True)
            shutil.copytree(crate_dir, work, ignore=shutil.ignore_patterns("target", "Cargo.lock"))
            toml = open(os.path.join(work, "Cargo.toml")).read().replace('"/repo/', '"' + REPO.rstrip("/") + "/")
            open(os.path.join(work, "Cargo.toml"), "w").write(toml)
            shutil.copy(os.path.join(REPO, "Cargo.lock"), os.path.join(work, "Cargo.lock"))
            env = dict(os.environ, CARGO_TARGET_DIR=os.path.join(CACHE, "witness-target"), CARGO_NET_OFFLINE="true")
            for k in ("RUSTC_WRAPPER", "RUSTC_WORKSPACE_WRAPPER", "RUSTFLAGS", "JAQLINT_OUT"):
                env.pop(k, None)
            r = sh("cargo +nightly test --doc --offline", cwd=work, env=env)
            out = r.stdout + r.stderr
            res = re.findall(r"^test (src/lib\.rs - (\S+) \(line \d+\)(?: - (compile fail|compile))?) \.\.\. (\w+)", out, re.M)
            # a failure that is neither a doc-test verdict nor a compiler diagnostic is the environment (e.g. the
            # toolchain could not be started under load): try again instead of reporting a property violation
            if r.returncode == 0 or res or re.search(r"error\[E\d+\]|^error: (?!process didn't exit|could not (execute|exec)|failed to run)", out, re.M):
                break
            time.sleep(5 * (attempt + 1))
    return r.returncode == 0, res, out


def run(facts, tier):
    t0 = time.time()
    rules = []

    # ---- W19.1 witnesses
    w = Rule("W19.1", "type-checker witnesses: Filter/Lut/Native/Val(sync)/Error are Send+Sync and 'static (compile-pass items); Ctx and Vars are not Send, a shared Lut cannot be borrowed mutably (compile_fail doc-tests with compiling twins)", floor=6)
    configs = [("sync", os.path.join(VERIF, "witness", "sync"), {"CtxIsPerThread": 2, "VarsArePerThread": 2, "LutIsReadOnlyWhenShared": 2, "RunTakesSharedRefs": 1})]
    if tier == "thorough":
        configs.append(("nosync", os.path.join(VERIF, "witness", "nosync"), {"ValIsNotSendWithoutSync": 2}))
    for name, d, expect in configs:
        ok, res, out = doctests(d, name)
        got = collections.Counter()
        for full, item, kind, verdict in res:
            w.examined(f"{name}:{full}", True, {"config": name, "test": full, "verdict": verdict})
            got[item] += 1
            if verdict != "ok":
                w.violate(f"{name}/{item}/{kind or 'compile'}", f"witness `{item}` ({kind or 'compile'}) in config {name}: {verdict} -- a Send/Sync/immutability fact about the compiled filter no longer holds", detail=out[-2500:])
        if not ok and not any(v != "ok" for *_, v in res):
            # the compile-pass items failed to build
            m = re.search(r"error(\[E\d+\])?: .*", out)
            w.violate(f"{name}/compile-pass", f"compile-pass witnesses of config {name} no longer type-check: {m.group(0) if m else 'build failed'}", detail=out[-3000:])
        for item, n in expect.items():
            if got[item] != n and (ok or res):
                w.violate(f"{name}/missing/{item}", f"witness `{item}` did not run ({got[item]} of {n} doc-tests seen) -- fail closed", detail=out[-1500:])
    rules.append(w.finish())

    # ---- I19.2 deep immutability of the term table
    r = Rule("I19.2", "a type walk from the term table types through all fields finds no interior mutability, reference counting, raw pointer or trait object (std containers Vec/Box/String/Option are trusted, their arguments are walked)", floor=15)
    adts = {a["def"]: a for a in facts.items("jaq_core")["adts"]}
    seen = {}
    queue = collections.deque()
    for root in ROOTS:
        if root not in adts:
            r.missing_anchor(root)
            continue
        queue.append((root, [root]))
    while queue:
        d, path = queue.popleft()
        if d in seen:
            continue
        seen[d] = path
        a = adts.get(d)
        if a is None:
            r.violate(f"unknown-adt/{d}", f"type `{d}` reachable from the term table is not in the fact base", detail=path)
            continue
        for v in a["variants"]:
            for f in v["fields"]:
                key = f"{d}::{v['name']}.{f['name']}"
                interesting = False
                for m in f["mentions"]:
                    if "adt" in m:
                        t = m["adt"]
                        if FORBIDDEN_ADT.search(t):
                            interesting = True
                            r.violate(f"interior/{key}/{t}", f"field `{key}: {f['ty']}` of the term table mentions `{t}` (interior mutability / shared ownership)", detail=path)
                        elif t in TRUSTED:
                            pass
                        else:
                            queue.append((t, path + [t]))
                    elif "raw" in m:
                        interesting = True
                        r.violate(f"raw/{key}", f"field `{key}: {f['ty']}` holds a raw pointer", detail=path)
                    elif "dyn" in m:
                        interesting = True
                        r.violate(f"dyn/{key}", f"field `{key}: {f['ty']}` holds a trait object (could hide state)", detail=path)
                    elif "fnptr" in m or "param" in m or "alias" in m:
                        interesting = True
                r.examined(key, True if interesting or True else False, {"field": key, "ty": f["ty"]})
    r.notes.append(f"ADTs walked: {sorted(seen)}")
    rules.append(r.finish())

    # ---- S19.3 no shared mutable state in first-party crates
    s = Rule("S19.3", "first-party library crates define no `static mut`, no static of a non-Freeze type and no thread-local; the binary crate's only such statics are the two counters of the interactive `repl` (documented exception) and nobody else references them", floor=3)
    allowed_bin = {"jaq::funs::REPL_DEPTH", "jaq::funs::REPL_KILL_DEPTH"}
    for c in FIRST_PARTY:
        for st in facts.items(c)["statics"]:
            exp = st.get("exp") or ""
            shared = st.get("mut") or st.get("thread_local") or st.get("freeze") is False or st.get("const_nonfreeze")
            s.examined(st["def"], bool(shared), {"static": st["def"], "ty": st["ty"], "mut": st.get("mut"), "freeze": st.get("freeze"), "thread_local": st.get("thread_local")})
            if not shared:
                continue
            if st.get("const_nonfreeze") and not st.get("thread_local"):
                # a `const` of a non-Freeze type is instantiated per use: not shared state
                continue
            if c == "jaq" and st["def"] in allowed_bin:
                continue
            s.violate(f"static/{st['def']}", f"`{st['def']}: {st['ty']}` is shared mutable state (mut={st.get('mut')}, freeze={st.get('freeze')}, thread_local={st.get('thread_local')})", where=st.get("sp"))
    # users of the repl counters
    for c, b in facts.all_mir():
        txt = None
        for bb in b["bbs"]:
            for st in bb["st"]:
                if st.get("k") == "A":
                    txt = repr(st["r"])
                    for a in allowed_bin:
                        if a in txt and not b["def"].startswith("jaq::funs::repl"):
                            s.violate(f"repl-counter-user/{b['def']}", f"`{b['def']}` references `{a}`; only the repl filter may")
                    if st["r"].get("k") == "ThreadLocalRef":
                        s.violate(f"tls-ref/{b['def']}", f"`{b['def']}` references thread-local `{st['r'].get('def')}`")
    rules.append(s.finish())

    # ---- U19.4 unsafe
    u = Rule("U19.4", "`unsafe_code` is forbidden at the crate root of jaq-core, jaq-std and jaq-json, and the only first-party unsafe construct written by hand is the memory mapping in jaq_fmts::read::load_file", floor=4)
    for c in ("jaq_core", "jaq_std", "jaq_json"):
        lvl = facts.items(c)["attrs"].get("unsafe_code_level")
        u.examined(f"level/{c}", True, {"crate": c, "unsafe_code": lvl})
        if lvl != "Forbid":
            u.violate(f"level/{c}", f"crate {c} no longer forbids unsafe code (level {lvl})")
    allowed_unsafe = {("block", "jaq_fmts::read::load_file")}
    for c in FIRST_PARTY:
        for x in facts.items(c)["unsafe"]:
            exp = x.get("exp") or ""
            # compiler desugarings (format_args!) and macros defined outside the first-party crates
            # (std, self_cell, ...) belong to the trusted base "unsafe inside dependencies"
            generated = exp.startswith(("desugar:", "astpass:")) or (exp.startswith("macro:") and exp.split("@")[-1] not in FIRST_PARTY)
            u.examined(f"{c}/{x['kind']}/{x['in']}", not generated)
            if generated:
                continue
            if (x["kind"], x["in"]) in allowed_unsafe:
                continue
            u.violate(f"unsafe/{x['kind']}/{x['in']}", f"hand-written unsafe {x['kind']} in `{x['in']}`", where=x.get("sp"))
    rules.append(u.finish())

    # ---- D19.5 determinism: no hash-order iteration
    dr = Rule("D19.5", "first-party code never iterates a HashMap/HashSet (hash order would make outputs differ between runs); ordered containers only", floor=50)
    HASH_ITER = re.compile(r"^(std::collections::hash::(map|set)|hashbrown::(map|set))::.*::(iter|iter_mut|keys|values|values_mut|into_keys|into_values|drain|retain|extract_if|into_iter)$|<&?(mut )?std::collections::hash::(map|set)::Hash(Map|Set)<.*> as core::iter::traits::collect::IntoIterator>::into_iter")
    ncalls = 0
    for c, b in facts.all_mir():
        for bb in b["bbs"]:
            t = bb["t"]
            if t.get("k") != "Call" or "fn" not in t:
                continue
            ncalls += 1
            callee = t.get("res") or t["fn"]
            self_ty = (t.get("gargs") or [""])[0]
            is_iter_call = callee.endswith(("IntoIterator::into_iter", "::iter", "::keys", "::values", "::drain", "::into_iter"))
            hashy = HASH_ITER.search(callee) or (is_iter_call and re.search(r"std::collections::hash::(map|set)::Hash(Map|Set)<|hashbrown::(map|set)::Hash(Map|Set)<", self_ty))
            dr.examined((b["def"], callee, t.get("sp")), bool(hashy))
            if hashy:
                dr.violate(f"hash-iter/{b['def']}/{callee}", f"`{b['def']}` iterates a hash container (`{callee}` on `{self_ty[:80]}`): iteration order depends on the hash seed", where=t.get("sp"))
    rules.append(dr.finish())

    # ---- D19.7 results must not depend on how many owners a value has
    d7 = Rule("D19.7", "a result never depends on whether a value is shared: reference counts are observed only by the copy-on-write idioms (make_mut, try_unwrap-or-clone), by the pointer-equality fast path whose outcome equals the structural comparison, and by the iterative Drop of the list types", floor=10)
    RC_API = re.compile(r"^alloc::(rc::Rc|sync::Arc)::<T(, A)?>::(strong_count|weak_count|get_mut|get_mut_unchecked|try_unwrap|into_inner|ptr_eq|is_unique|make_mut|unwrap_or_clone|downgrade)$")
    # (file, API) -> how many source sites are reviewed, and why they are transparent
    RC_OK = {
        ("jaq-json/src/lib.rs", "make_mut"): (7, "copy-on-write: the result equals the result on a private copy"),
        ("jaq-json/src/lib.rs", "try_unwrap"): (2, "unwrap-or-clone: yields the same value either way"),
        ("jaq-core/src/rc_list.rs", "try_unwrap"): (1, "unwrap-or-clone in List::pop"),
        ("jaq-json/src/num.rs", "ptr_eq"): (2, "fast path: identical decimal text compares equal either way"),
        ("jaq-core/src/rc_lazy_list.rs", "get_mut"): (1, "iterative Drop of the lazy list (no observable result)"),
    }
    sites = collections.defaultdict(set)
    for c, b in facts.all_mir():
        for bb in b["bbs"]:
            t = bb["t"]
            if t.get("k") != "Call" or "fn" not in t or bb.get("cleanup"):
                continue
            m = RC_API.match(t["fn"])
            if m:
                sites[(t["sp"].split(":")[0], m.group(3))].add((b["def"], t["sp"]))
    for key, ss in sorted(sites.items()):
        ok = RC_OK.get(key)
        for s_ in ss:
            d7.examined((key, s_), True)
        if len(d7.samples) < 5:
            d7.samples.append({"file": key[0], "api": key[1], "sites": len(ss), "reviewed": ok[1] if ok else None})
        if ok is None:
            d7.violate(f"{key[0]}/{key[1]}", f"`Rc::{key[1]}` is used in {key[0]} ({sorted(x[0] for x in ss)[0]}): behaviour could depend on whether the value is shared between owners/threads", where=sorted(ss)[0][1])
        elif len(ss) > ok[0]:
            d7.violate(f"{key[0]}/{key[1]}/count", f"{len(ss) - ok[0]} new use(s) of `Rc::{key[1]}` in {key[0]} ({len(ss)} found, {ok[0]} reviewed)", where=sorted(ss)[-1][1], detail=sorted(ss))
    rules.append(d7.finish())

    # ---- A19.6 ambient inputs reachable during execution are exactly those the statement sets aside
    import c06
    g = Mono(facts.mono())
    N = g.nodes
    fams = c06.load_families()
    native, interp, codec = c06.roots_of(g)
    repl = {i for i, n in enumerate(N) if c06.fn_def(n).startswith("jaq::funs::repl") or (n.get("root") or "").startswith("jaq::funs::repl")}
    par = g.reach((native | interp | codec) - repl, removed=repl)
    a = Rule("A19.6", "the ambient (environment-dependent) leaves reachable while a filter runs are the ones the property sets aside -- clock, environment, input stream, logging -- plus process-local plumbing (locks, thread-locals, hash seeds, CPU detection, abort)", floor=5)
    AMBIENT_OK = re.compile(r"^(std::env::(_var|_var_os|vars|vars_os)|<std::env::Vars as .*|std::time::.*|<std::time::.*|std::thread::.*|std::sys::(sync|thread_local|random)::.*|std::sys::pal::unix::futex::.*|std_detect::.*|std::process::(abort|exit)|std::(panicking|rt|sys::backtrace)::.*)$")
    for i in par:
        n = N[i]
        if not c06.is_leaf(n):
            continue
        if c06.classify(fams, n) == "ambient":
            a.examined(n["def"], True, {"leaf": n["def"]})
            if not AMBIENT_OK.match(n["def"]):
                a.violate(f"ambient/{n['def']}", f"ambient source `{n['def']}` is reachable during filter execution and is not one the property sets aside", detail=g.chain(par, i))
    # mutable statics of dependencies reachable during execution (reviewed table)
    dep_statics = collections.defaultdict(set)
    for i in par:
        for d, m in g.statics.get(i, ()):
            if m or d.startswith("thread_local:"):
                dep_statics[d].add(N[i]["crate"])
    a.notes.append("mutable/thread-local statics referenced during execution: " + ", ".join(sorted(dep_statics))[:1500])
    rules.append(a.finish())

    explanation = ("Safe Rust + Send/Sync of the compiled filter (type checker) + no interior mutability anywhere in the term table (type walk) + no first-party global or thread-local state "
                   "+ no hand-written unsafe + no hash-order iteration => a run is a function of (filter, context, input, ambient sources named by the property) whatever the schedule. "
                   "Decided from the typed program (rustc type checker for the witnesses; HIR/MIR/item facts from the driver for the rest); nothing is executed.")
    return finish("C19", "proof", rules, t0, tier, explanation,
                  ["rustc's type and borrow checker are sound", "unsafe code inside dependencies (bytes, indexmap, std) upholds its contracts",
                   "the quantifier's 'thread-safe representation' = jaq-json built with feature `sync`"],
                  trusted_base=["rustc type checker (Send/Sync auto traits, E0277/E0596)", "driver facts (ADT field tables, statics, unsafe blocks, MIR callees)"])
