"""C20 — date and time filters: numeric and error discipline of jaq_std::time (structural clauses)."""
import re
import time

from c05 import taint_rules
from common import Rule, finish
from hirutil import native_registry
from mirutil import Body, op_local

MOD = re.compile(r"^jaq_std::time\b")


def run(facts, tier):
    t0 = time.time()
    rules = []
    r, T = taint_rules(facts, "N20.1", "in the date/time module, user epochs and broken-down fields are scaled, offset and converted only by checked arithmetic, and every float-to-integer / narrowing cast of a user number is control-dependent on a finiteness or range test of that number (a non-finite or huge input must become an error, never another instant)",
                       lambda d: MOD.match(d) is not None, 40)
    # the module must actually contain the casts/arith we expect to examine (fail closed)
    if r.instances < 3:
        r.violate("floor", f"only {r.instances} numeric sinks examined in jaq_std::time (expected >= 3)")
    rules.append(r)

    # E20.3 every jiff Result is propagated; nothing is clamped or unwrapped
    e = Rule("E20.3", "in the date/time module no result of the calendar library is unwrapped, defaulted, saturated or clamped: every fallible jiff call ends in `?` or map_err (never a different instant)", floor=10)
    FORBID = re.compile(r"::(unwrap|expect|unwrap_or|unwrap_or_default|unwrap_or_else|unwrap_unchecked|ok)$|::saturating_\w+$|::wrapping_\w+$|::clamp$|jiff::timestamp::Timestamp::(MIN|MAX|UNIX_EPOCH)|::constrain$|_unchecked$")
    n_jiff = 0
    for c, j in facts.all_mir():
        if not MOD.match(j["def"]):
            continue
        b = Body(j)
        for i, t in b.calls():
            callee = Body.callee(t) or ""
            decl = t.get("fn") or ""
            is_jiff = callee.startswith(("jiff::", "<jiff::")) or decl.startswith("jiff::")
            if is_jiff:
                n_jiff += 1
            e.examined((j["def"], callee, t["sp"]), is_jiff or bool(FORBID.search(decl)))
            if FORBID.search(decl) or FORBID.search(callee):
                # `.ok()` on try_into of a field is the documented way to reject out-of-range fields (-> None -> error);
                # allowed only when the receiver is not a jiff result
                recv_ty = (t.get("argtys") or [""])[0]
                if decl.endswith("::ok") and "jiff::" not in recv_ty:
                    continue
                if re.search(r"::(unwrap_or|unwrap_or_else)$", decl) and "jiff::" not in recv_ty and "f64" not in recv_ty and "isize" not in recv_ty and "i64" not in recv_ty:
                    continue
                e.violate(f"{j['def']}/{decl.split('::')[-1]}", f"`{j['def']}` calls `{decl}` on `{recv_ty[:80]}`: a failing or out-of-range time computation would be replaced by another value", where=t["sp"])
    if n_jiff < 8:
        e.violate("floor-jiff", f"only {n_jiff} calls into the calendar library found in jaq_std::time")
    rules.append(e.finish())

    # R20.4 natives do not build instants from raw numbers themselves
    k = Rule("R20.4", "no time native builds an instant from raw numbers itself (Timestamp::from_* / DateTime::new inside the closure of a registered native): "
             "that happens only in separate conversion functions, which are the ones the numeric rules N20.1 examine, and there are conversion functions for both directions", floor=3)
    reg = native_registry(facts)
    registry_fns = {body_def for _, (name, body_def, sp) in reg.items()}
    RAW_IN = re.compile(r"^jiff::timestamp::Timestamp::(from_second|from_microsecond|from_millisecond|from_nanosecond|new|constant)$|^jiff::civil::datetime::DateTime::(new|constant)$")
    kernels = set()
    for c, j in facts.all_mir():
        if not MOD.match(j["def"]):
            continue
        b = Body(j)
        for i, t in b.calls():
            callee = Body.callee(t) or ""
            if RAW_IN.search(callee):
                fn = j["def"].split("::{closure")[0]
                ok = fn not in registry_fns
                kernels.add(fn)
                k.examined((fn, callee), True, {"fn": fn, "constructs": callee})
                if not ok:
                    k.violate(f"raw-constructor/{callee.split('::')[-1]}", f"a native registered in `{fn}` builds an instant from raw numbers with `{callee}` itself instead of going through a conversion function", where=t["sp"])
    if not kernels:
        k.missing_anchor("a function of jaq_std::time that constructs instants (Timestamp::from_* / DateTime::new)")
    rules.append(k.finish())

    # R20.5 the fraction of a second is read as a whole
    f5 = Rule("R20.5", "the sub-second part of an instant is read with the whole-fraction accessors (`subsec_nanosecond`, `as_microsecond` ..), never with the component accessors "
              "`millisecond()` / `microsecond()` / `nanosecond()`, each of which is only one 0..999 digit group: testing or adding one of those drops fractions such as .5", floor=2)
    whole = comp = 0
    for c, j in facts.all_mir():
        if not MOD.match(j["def"]):
            continue
        b = Body(j)
        for i, t in b.calls():
            callee = Body.callee(t) or ""
            if re.search(r"^jiff::.*::(subsec_nanosecond|as_microsecond|as_millisecond|as_nanosecond|subsec_microsecond|subsec_millisecond)$", callee):
                whole += 1
                f5.examined((j["def"], callee, t["sp"]), True, {"fn": j["def"], "reads_fraction_with": callee.split("::")[-1]})
            elif re.search(r"^jiff::(civil::(datetime::DateTime|time::Time)|zoned::Zoned)::(millisecond|microsecond|nanosecond)$", callee):
                comp += 1
                f5.violate(f"component/{callee.split('::')[-1]}", f"`{j['def']}` reads the sub-second part with `{callee}`, which is only one three-digit group of the fraction (0..999): fractions whose other groups carry the value (0.5 s = 500 ms, 0 us) are lost", where=t["sp"])
    if not whole:
        f5.missing_anchor("a whole-fraction accessor in jaq_std::time")
    rules.append(f5.finish())

    # R20.6 the fraction test of an instant is sign-agnostic
    f6 = Rule("R20.6", "whether an instant has a fractional part is decided by comparing its (signed) sub-second part with zero for inequality: `Timestamp::subsec_*` is negative "
              "for instants before 1970, so a `> 0` test treats -0.5 as a whole second and the fraction is lost on the way back", floor=1)
    nts = 0
    for c, j in facts.all_mir():
        if not MOD.match(j["def"]):
            continue
        b = Body(j)
        src = set()
        for i, t in b.calls():
            callee = Body.callee(t) or ""
            if re.search(r"^jiff::timestamp::Timestamp::(subsec_nanosecond|subsec_microsecond|subsec_millisecond)$|^jiff::signed_duration::SignedDuration::subsec_\w+$", callee):
                src.add(t["d"]["l"])
        if not src:
            continue
        der = b.derived_from(src)
        for bb in b.bbs:
            for s_ in bb["st"]:
                if s_.get("k") == "A" and s_["r"].get("k") == "Bin" and s_["r"]["op"] in ("Gt", "Ge", "Lt", "Le", "Eq", "Ne"):
                    a_, b2 = s_["r"]["a"], s_["r"]["b"]
                    la, lb = op_local(a_), op_local(b2)
                    zero = lambda o: (o.get("k") or {}).get("v") == 0
                    if (la in der and zero(b2)) or (lb in der and zero(a_)):
                        nts += 1
                        ok = s_["r"]["op"] in ("Eq", "Ne")
                        f6.examined((j["def"], s_.get("sp")), True, {"fn": j["def"], "fraction_test": s_["r"]["op"], "sign_agnostic": ok})
                        if not ok:
                            f6.violate(f"sign/{j['def'].split('::{closure')[0]}", f"`{j['def']}` tests the sub-second part of a timestamp with `{s_['r']['op']}` against 0: it is negative before 1970, so instants like -0.5 are taken for whole seconds (`(-0.5) | gmtime | mktime` gives 0)", where=s_.get("sp"))
    if not nts:
        f6.missing_anchor("a test of a timestamp's sub-second part against zero in jaq_std::time")
    rules.append(f6.finish())

    explanation = ("Calendar correctness and inversion are value-level and not decided. Decided on jaq_std::time: numeric discipline of everything computed from user numbers (shared taint engine), "
                   "error discipline towards the calendar library (who-may-call), and that raw instant constructors are confined to the conversion kernels.")
    return finish("C20", "other", rules, t0, tier, explanation, ["jiff rejects out-of-range instants (Timestamp::from_* / DateTime::new return Err)", "taint propagation stops at unknown calls"])
