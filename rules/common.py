"""Shared infrastructure: fact extraction + cache keyed by the hash of /repo's working tree,
fact loading, rule results, evidence and known findings."""
import fcntl
import hashlib
import json
import re
import os
import shutil
import subprocess
import sys
import time

T_PROCESS = time.time()
VERIF = os.path.dirname(os.path.dirname(os.path.abspath(__file__)))
REPO = os.environ.get("JAQ_REPO", "/repo")
CACHE = os.path.join(VERIF, ".cache")
EVIDENCE = os.environ.get("VERIF_EVIDENCE_DIR") or os.path.join(VERIF, "evidence")
FIRST_PARTY = ["jaq_core", "jaq_std", "jaq_json", "jaq_fmts", "jaq_all", "jaq"]
DRIVER = os.path.join(VERIF, "driver", "target", "release", "jaqlint")


def sh(cmd, **kw):
    return subprocess.run(cmd, shell=isinstance(cmd, str), text=True, capture_output=True, **kw)


def tree_files(repo):
    out = sh(["git", "-C", repo, "ls-files", "-co", "--exclude-standard"]).stdout.split("\n")
    files = []
    for f in out:
        if not f:
            continue
        # only what can influence the build of the analysed crates
        if f.startswith(("docs/", "examples/", "target/", "jaq-play/")) and not f.endswith(".rs"):
            if not f.startswith("docs/"):
                continue
        if f.endswith((".rs", ".toml", ".lock", ".jq", ".txt", ".dj")) or "/src/" in f:
            files.append(f)
    return sorted(files)


def tree_hash(repo):
    h = hashlib.sha256()
    for f in tree_files(repo):
        p = os.path.join(repo, f)
        if not os.path.isfile(p):
            continue
        h.update(f.encode())
        h.update(b"\0")
        with open(p, "rb") as fh:
            h.update(fh.read())
        h.update(b"\0")
    # the driver is part of the key: a rebuilt driver invalidates cached facts
    try:
        st = os.stat(DRIVER)
        h.update(f"{st.st_size}:{int(st.st_mtime)}".encode())
    except FileNotFoundError:
        pass
    return h.hexdigest()[:20]


def ensure_driver():
    if os.path.exists(DRIVER):
        src = os.path.join(VERIF, "driver", "src")
        newest = max(os.path.getmtime(os.path.join(src, f)) for f in os.listdir(src))
        if newest <= os.path.getmtime(DRIVER):
            return
    r = sh("cargo +nightly build --release --offline", cwd=os.path.join(VERIF, "driver"),
           env=dict(os.environ, CARGO_NET_OFFLINE="true"))
    if r.returncode != 0 or not os.path.exists(DRIVER):
        sys.stderr.write(r.stdout + r.stderr)
        raise SystemExit("cannot build the jaqlint driver")


class Lock:
    def __init__(self, path):
        self.path = path

    def __enter__(self):
        os.makedirs(os.path.dirname(self.path), exist_ok=True)
        self.fh = open(self.path, "w")
        fcntl.flock(self.fh, fcntl.LOCK_EX)
        return self

    def __exit__(self, *a):
        fcntl.flock(self.fh, fcntl.LOCK_UN)
        self.fh.close()


EXPECTED = [f"{c}.{'bin' if c == 'jaq' else 'lib'}.{k}.json" for c in FIRST_PARTY for k in ("hir", "mir", "items")] + ["jaq.bin.mono.json"]


def facts_dir(config="default", cargo_args=None, rustflags=None, repo=None, extra_env=None):
    """Return the directory with the facts of the current working tree of /repo, extracting
    them (one cargo check with the driver injected, in a fresh target dir) when the tree
    changed. Every check therefore analyses the *current* tree."""
    repo = repo or REPO
    ensure_driver()
    os.makedirs(CACHE, exist_ok=True)
    with Lock(os.path.join(CACHE, "lock")):
        h = tree_hash(repo)
        d = os.path.join(CACHE, f"{h}-{config}")
        ok = os.path.isdir(d) and all(os.path.getsize(os.path.join(d, f)) > 2 for f in expected_for(config) if os.path.exists(os.path.join(d, f))) \
            and all(os.path.exists(os.path.join(d, f)) for f in expected_for(config))
        if ok and not os.environ.get("VERIF_NO_CACHE"):
            os.utime(d)  # in use: keeps a concurrent check from evicting it
            return d
        if os.path.isdir(d):
            shutil.rmtree(d)
        # drop old cache entries (keep disk usage bounded)
        entries = sorted((os.path.getmtime(os.path.join(CACHE, e)), e) for e in os.listdir(CACHE) if os.path.isdir(os.path.join(CACHE, e)) and not e.startswith("witness"))
        for mt, e in entries[:-14]:
            if time.time() - mt > 1800:  # never an entry another running check may still be reading
                shutil.rmtree(os.path.join(CACHE, e), ignore_errors=True)
        tmp = d + ".tmp"
        shutil.rmtree(tmp, ignore_errors=True)
        env = dict(os.environ)
        if rustflags:
            env["JAQLINT_RUSTFLAGS"] = rustflags
        env.update(extra_env or {})
        t0 = time.time()
        r = sh([os.path.join(VERIF, "bin", "extract.sh"), repo, tmp] + (cargo_args or []), env=env)
        if r.returncode != 0:
            sys.stderr.write(r.stdout[-3000:] + r.stderr[-6000:])
            raise SystemExit(f"fact extraction failed for /repo (config {config}); the tree does not build with the analysis driver")
        missing = [f for f in expected_for(config) if not os.path.exists(os.path.join(tmp, f)) or os.path.getsize(os.path.join(tmp, f)) <= 2]
        if missing:
            raise SystemExit(f"fact extraction incomplete (driver was not invoked for: {missing})")
        with open(os.path.join(tmp, "meta.json"), "w") as fh:
            json.dump({"tree_hash": h, "config": config, "extract_wall_s": round(time.time() - t0, 1)}, fh)
        os.rename(tmp, d)
        return d


def expected_for(config):
    if config == "example-main":
        return ["main.bin.mono.json"]
    if config.startswith("fixtures"):
        return ["jaqlint_fixtures.bin.hir.json", "jaqlint_fixtures.bin.mir.json", "jaqlint_fixtures.bin.items.json", "jaqlint_fixtures.bin.mono.json"]
    return EXPECTED


_json_cache = {}


def load(d, name):
    p = os.path.join(d, name)
    if p not in _json_cache:
        with open(p) as fh:
            _json_cache[p] = json.load(fh)
    return _json_cache[p]


class Facts:
    """Lazy access to the fact files of one extraction."""

    def __init__(self, d, crates=None, bin_crate="jaq"):
        self.dir = d
        self.crates = crates or FIRST_PARTY
        self.bin_crate = bin_crate

    def _name(self, crate, kind):
        return f"{crate}.{'bin' if crate == self.bin_crate else 'lib'}.{kind}.json"

    def hir(self, crate):
        return load(self.dir, self._name(crate, "hir"))

    def mir(self, crate):
        return load(self.dir, self._name(crate, "mir"))

    def items(self, crate):
        return load(self.dir, self._name(crate, "items"))

    def mono(self):
        return load(self.dir, self._name(self.bin_crate, "mono"))

    def all_hir(self):
        for c in self.crates:
            for b in self.hir(c):
                yield c, b

    def all_mir(self):
        for c in self.crates:
            for b in self.mir(c):
                yield c, b

    def hir_fn(self, path):
        """Find a HIR body by (crate-qualified) def path; fail closed when missing."""
        crate = path.lstrip("<&").split("::")[0]
        for b in self.hir(crate):
            if b["def"] == path:
                return b
        return None

    def mir_fn(self, path):
        crate = path.lstrip("<&").split("::")[0]
        for b in self.mir(crate):
            if b["def"] == path:
                return b
        return None

    def mir_find(self, rx, crate=None):
        """Bodies whose def path matches the regex (anchors are regexes so that renaming a generic
        parameter does not lose them)."""
        import re
        r = re.compile(rx)
        out = []
        for c in ([crate] if crate else self.crates):
            for b in self.mir(c):
                if r.search(b["def"]):
                    out.append(b)
        return out

    def hir_find(self, rx, crate=None):
        import re
        r = re.compile(rx)
        out = []
        for c in ([crate] if crate else self.crates):
            for b in self.hir(c):
                if r.search(b["def"]):
                    out.append(b)
        return out

    def mir_closures_of(self, path):
        crate = path.split("::")[0]
        return [b for b in self.mir(crate) if b.get("root") == path and b["def"] != path]


class Overlay(Facts):
    """Facts of the current tree with some bodies replaced by recorded bodies of code that is known to
    violate a rule (positive controls)."""

    def __init__(self, base, fixture):
        super().__init__(base.dir, base.crates, base.bin_crate)
        self.fx = fixture
        self._cache = {}

    def _merge(self, crate, kind, base_list):
        key = (crate, kind)
        if key not in self._cache:
            repl = {b["def"]: b for b in self.fx.get(kind, {}).get(crate, [])}
            out = [repl.pop(b["def"], b) for b in base_list]
            out.extend(repl.values())
            self._cache[key] = out
        return self._cache[key]

    def hir(self, crate):
        return self._merge(crate, "hir", super().hir(crate))

    def mir(self, crate):
        return self._merge(crate, "mir", super().mir(crate))

    def items(self, crate):
        it = super().items(crate)
        extra = self.fx.get("items", {}).get(crate)
        if extra:
            it = dict(it)
            for k, v in extra.items():
                it[k] = list(it.get(k, [])) + v
        return it

    def mono(self):
        m = super().mono()
        patch = self.fx.get("mono")
        if not patch:
            return m
        key = ("mono",)
        if key not in self._cache:
            import copy
            m2 = {k: (list(v) if isinstance(v, list) else v) for k, v in m.items()}
            base = len(m2["nodes"])
            for i, n in enumerate(patch.get("nodes", [])):
                n = dict(n, id=base + i)
                m2["nodes"].append(n)
            def ref(x):
                if isinstance(x, str) and x.startswith("new:"):
                    return base + int(x[4:])
                if isinstance(x, str) and x.startswith("def:"):
                    return next(i for i, n in enumerate(m2["nodes"]) if n["def"] == x[4:])
                return x
            for a, b, k, sp in patch.get("edges", []):
                m2["edges"].append([ref(a), ref(b), k, sp])
            for a, sig, b, how in patch.get("reified", []):
                m2["reified"].append([ref(a), sig, ref(b), how])
            self._cache[key] = m2
        return self._cache[key]


CONTROL_MODE = False
CONTROL_RESULTS = []
ALT_RESULTS = []
ALT_MODE = False
ALT_CONFIGS = {
    # same sources, release-like code generation: the rules must reach the same verdicts
    # (they look at the operations, not at the overflow asserts / debug assertions)
    "nochecks": {"rustflags": "-Zmir-opt-level=0 -Awarnings -Coverflow-checks=off -Cdebug-assertions=off -Zalways-encode-mir"},
}


def run_alt_configs(pid, module, tier):
    """thorough tier: evaluate the same rules on the facts of alternative build configurations."""
    global CONTROL_MODE
    if tier != "thorough":
        return
    for name, cfg in ALT_CONFIGS.items():
        d = facts_dir(config=name, rustflags=cfg["rustflags"])
        global ALT_MODE
        CONTROL_MODE = ALT_MODE = True
        try:
            vs = module.run(Facts(d), tier)
        finally:
            CONTROL_MODE = ALT_MODE = False
        ALT_RESULTS.append({"config": name, "violations": vs})


def body_hash(b):
    """hash of a HIR/MIR body that ignores source positions (an edit elsewhere in the file does not change it)"""
    import hashlib

    def strip_sp(x):
        if isinstance(x, dict):
            return {k: strip_sp(v) for k, v in x.items() if k not in ("sp", "fsp", "exp", "expc")}
        if isinstance(x, list):
            return [strip_sp(y) for y in x]
        if isinstance(x, str) and "HirId(" in x:
            # e.g. `TryDesugar(HirId(DefId(0:431 ~ jaq_fmts[47ce]::..)))`: definition indices and crate hashes shift
            # whenever anything else in the crate changes
            return re.sub(r"HirId\(.*\)", "HirId", x)
        return x
    return hashlib.sha1(json.dumps(strip_sp(b), sort_keys=True, default=repr).encode()).hexdigest()[:16]


def control_is_stale(facts, fx):
    """A recorded control replaces bodies of the tree it was recorded on. When the current tree's version of one of
    those bodies is no longer the code the control was recorded against (the function was edited, renamed, split),
    overlaying the old body says nothing about the rule any more: the control is skipped, not failed."""
    base = fx.get("baseline")
    if not base:
        return False
    for kind in ("hir", "mir"):
        for crate, hashes in base.get(kind, {}).items():
            cur = {b["def"]: b for b in (Facts.hir(facts, crate) if kind == "hir" else Facts.mir(facts, crate))}
            for d, h in hashes.items():
                if d not in cur or body_hash(cur[d]) != h:
                    return True
    return False


def run_controls(pid, module, facts, tier):
    """Positive controls: every fixture registered for this property must make its rule fire."""
    global CONTROL_MODE
    reg_path = os.path.join(VERIF, "fixtures", "controls.json")
    if not os.path.exists(reg_path):
        return
    reg = json.load(open(reg_path))
    todo = [c for c in reg if pid in c["expect"]]
    if tier != "thorough":
        todo = [c for c in todo if c.get("quick", True)]
    for c in todo:
        fx = json.load(open(os.path.join(VERIF, "fixtures", c["fixture"])))
        if control_is_stale(facts, fx):
            CONTROL_RESULTS.append({"control": c["id"], "what": c["what"], "expected_rules": c["expect"][pid], "fired": [], "ok": True, "stale": True})
            continue
        CONTROL_MODE = True
        try:
            fired = {v.rule for v in module.run(Overlay(facts, fx), tier)}
        finally:
            CONTROL_MODE = False
        want = c["expect"][pid]
        got = sorted({r for r in fired if r in want})
        CONTROL_RESULTS.append({"control": c["id"], "what": c["what"], "expected_rules": want, "fired": got, "ok": set(got) == set(want)})


# ---------------------------------------------------------------------------------------------


class Violation:
    def __init__(self, rule, key, msg, where=None, detail=None):
        self.rule = rule
        self.key = key  # stable: no line numbers
        self.msg = msg
        self.where = where  # file:line (diagnostic only)
        self.detail = detail

    def to_json(self):
        return {"rule": self.rule, "key": self.key, "msg": self.msg, "where": self.where, "detail": self.detail}


class Rule:
    """Result of evaluating one rule."""

    def __init__(self, rid, text, floor=0):
        self.id = rid
        self.text = text
        self.floor = floor
        self.instances = 0  # instances examined
        self.nontrivial = set()  # distinct instances where the rule had something to decide
        self.samples = []
        self.violations = []
        self.notes = []

    def examined(self, key, nontrivial=True, sample=None):
        self.instances += 1
        if nontrivial:
            self.nontrivial.add(key)
        if sample is not None and len(self.samples) < 6:
            self.samples.append(sample)

    def violate(self, key, msg, where=None, detail=None):
        self.violations.append(Violation(self.id, f"{self.id}/{key}", msg, where, detail))

    def missing_anchor(self, what):
        self.violate(f"anchor-missing/{what}", f"rule cannot be evaluated: anchor `{what}` not found in the current tree (fail closed)")

    def finish(self):
        if self.instances < self.floor and not ALT_MODE:  # floors are calibrated for the default configuration
            self.violate("floor", f"rule lost its instances: examined {self.instances} < floor {self.floor} (confirmed by hand on the pinned tree)")
        return self


def load_known():
    p = os.path.join(VERIF, "known_findings.json")
    if not os.path.exists(p):
        return {"open": [], "fixed": []}
    with open(p) as fh:
        return json.load(fh)


def finish(pid, level, rules, t0, tier, explanation, assumptions, extra_cov=None, checker_cmd=None, trusted_base=None):
    """Write evidence, print VIOLATION / KNOWN-FINDING lines, return exit code."""
    if CONTROL_MODE:
        # dry run (positive control on overlaid facts / alternative build configuration): no side effects
        return [v for r in rules for v in r.violations]
    if ALT_RESULTS:
        ac = Rule("CFG", "thorough tier: the same rules evaluated on the facts of alternative build configurations (overflow checks and debug assertions off) reach the same verdict", floor=1)
        for a in ALT_RESULTS:
            ac.examined(a["config"], True, {"config": a["config"], "violations": len(a["violations"])})
            for v in a["violations"]:
                ac.violate(f"{a['config']}/{v.key}", f"[configuration {a['config']}] {v.msg}", where=v.where, detail=v.detail)
        rules = list(rules) + [ac.finish()]
    if CONTROL_RESULTS:
        pc = Rule("PC", "positive controls: recorded facts of code known to violate a rule (reverse patches of repaired defects, seeded changes) are overlaid on the current facts and the rule must flag them", floor=1)
        for c in CONTROL_RESULTS:
            pc.examined(c["control"], True, c)
            if not c["ok"]:
                pc.violate(f"control/{c['control']}", f"positive control `{c['control']}` ({c['what']}) expected {c['expected_rules']} to fire, got {c['fired']}: the rule has gone blind")
        rules = list(rules) + [pc.finish()]
    known = load_known()
    open_keys = {k["key"]: k for k in known.get("open", []) if k.get("property") == pid}
    viol = []
    known_hits = []
    for r in rules:
        for v in r.violations:
            if v.key in open_keys:
                known_hits.append(v)
            else:
                viol.append(v)
    os.makedirs(os.path.join(EVIDENCE, "replay"), exist_ok=True)
    for v in known_hits:
        print(f"KNOWN-FINDING: property={pid} {v.key}: {v.msg}")
    for i, v in enumerate(viol):
        safe = hashlib.sha1(v.key.encode()).hexdigest()[:12]
        rp = os.path.join(EVIDENCE, "replay", f"{pid}-{safe}.json")
        with open(rp, "w") as fh:
            json.dump(v.to_json(), fh, indent=1)
        print(f"VIOLATION property={pid} replay={rp}")
        print(f"  rule {v.rule}: {v.msg}" + (f"  [{v.where}]" if v.where else ""))
        if v.detail:
            d = v.detail if isinstance(v.detail, str) else json.dumps(v.detail)
            print("  " + d[:1500])
    evaluations = sum(r.instances for r in rules)
    nontrivial = sum(len(r.nontrivial) for r in rules)
    samples = []
    for r in rules:
        for s in r.samples[:3]:
            samples.append({"rule": r.id, "instance": s})
    cov = {
        "explanation": explanation,
        "evaluations": evaluations,
        "distinct_nontrivial": nontrivial,
        "rule": "one evaluation = one rule instance (call site / match arm / variant pair / graph obligation) examined on the current tree; non-trivial = the instance had something to decide (see per-rule text); distinct by instance key",
        "samples": samples,
        "rules": [
            {"id": r.id, "text": r.text, "instances": r.instances, "distinct_nontrivial": len(r.nontrivial), "floor": r.floor,
             "violations": len(r.violations), "notes": r.notes[:8]}
            for r in rules
        ],
        "known_findings_hit": [v.key for v in known_hits],
    }
    if level == "proof":
        cov["obligations"] = len(rules)
        cov["discharged"] = sum(1 for r in rules if not r.violations)
        cov["checker_cmd"] = checker_cmd or f"./check {pid} --tier {tier}"
        cov["trusted_base"] = trusted_base or []
    if extra_cov:
        cov.update(extra_cov)
    ev = {
        "property_id": pid,
        "tier": tier,
        "seed": int(os.environ.get("VERIF_SEED", "0") or 0),
        "level": level,
        "coverage": cov,
        "assumptions": assumptions,
        "wall_s": round(time.time() - T_PROCESS, 2),
        "violations": len(viol),
    }
    os.makedirs(EVIDENCE, exist_ok=True)
    with open(os.path.join(EVIDENCE, f"{pid}.json"), "w") as fh:
        json.dump(ev, fh, indent=1, default=repr)
    n_ok = sum(1 for r in rules if not r.violations)
    print(f"{pid}: {len(rules)} rules, {evaluations} instances examined, {nontrivial} non-trivial, {len(viol)} violations, {len(known_hits)} known findings, {ev['wall_s']} s [{tier}]")
    return 1 if viol else 0
