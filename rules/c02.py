"""C02 — path(f), getpath and updates agree on the positions a filter denotes: agreement of the three
evaluators as tables over the term kinds (structural clauses)."""
import json
import re
import time

from common import Rule, finish
from hirtab import ANY, C, L, T, adt_variants, callees, candidates
from hirutil import find, strip, walk

TERM = "jaq_core::compile::Term"
BIND = "jaq_core::compile::Bind"
MODES = ("run", "paths", "update")
# value-constructing expressions: path(..) and updates of these must fail rather than guess
VALUE_TERMS = {"ToString", "Int", "Num", "Str", "Arr", "ObjEmpty", "ObjSingle", "Neg", "Logic", "Math", "Cmp", "Update", "Assign", "UpdateMath", "UpdateAlt"}
UPDATE_EXTRA = {"TryCatch", "Label"}  # documented: jaq does not implement updates through try/label


def evaluator(facts, mode):
    f = facts.hir_fn(f"jaq_core::filter::<impl jaq_core::compile::TermId>::{mode}")
    if f is None:
        return None, None
    ms = [m for m in find(f["body"], lambda n: n.get("k") == "Match" and n.get("src") == "Normal") if len(m["arms"]) >= 15 and "Term" in m["scrut_ty"]]
    return f, (ms[0] if ms else None)


def pat_binds(pat):
    """position -> set of binding ids, for a TupleStruct pattern (also through Or patterns)."""
    out = {}
    pats = [pat]
    if pat["k"] == "Or":
        pats = pat["pats"]
    for p in pats:
        if p["k"] == "TupleStruct":
            for i, sp in enumerate(p["pats"]):
                for b in find(sp, lambda n: n.get("k") == "Bind"):
                    out.setdefault(i, set()).add(b["id"])
    return out


def recv_id(n):
    r = strip(n["recv"])
    while r.get("k") in ("Field", "Unary"):
        r = strip(r["e"])
    if r.get("k") == "Path" and "local" in r["path"]:
        return r["path"]["id"]
    if r.get("k") == "If":
        return "if"
    return None


def subterm_calls(body, binds):
    """(position of sub-term, evaluator method, closure depth) for each call of run/paths/update on a pattern-bound sub-term."""
    idpos = {i: p for p, ids in binds.items() for i in ids}
    out = []

    def f(n, d):
        if n.get("k") == "MethodCall" and n["m"]["name"] in MODES and (n["m"].get("def") or "").startswith("jaq_core::filter::"):
            r = recv_id(n)
            if r in idpos:
                out.append((idpos[r], n["m"]["name"], d))
            elif r == "if":
                iff = strip(n["recv"])
                t, e = strip(iff["t"]), strip(iff.get("f") or {})
                tid = strip(t).get("path", {}).get("id") if t.get("k") == "Path" else (strip(t.get("expr") or {}).get("path", {}).get("id") if t.get("k") == "Block" else None)
                eid = strip(e).get("path", {}).get("id") if e.get("k") == "Path" else (strip(e.get("expr") or {}).get("path", {}).get("id") if e.get("k") == "Block" else None)
                out.append((("if", idpos.get(tid), idpos.get(eid)), n["m"]["name"], d))
    walk(body, f)
    return out



def rule_position_helpers(facts, rid):
    """Reader/updater agreement on the position helper (a first-party function that takes a `PosUsize`), per container kind.
    Helpers are identified by their signature, not by their names."""
    t6 = Rule(rid, "reading and updating position the same way: per container kind, `.[i:j]` (range) and `.[i:j] |= f` (map_range) pass the same single position helper "
              "(byte strings, text strings and arrays each their own; text and byte strings different ones), and `.[i]` (index_opt) and `.[i] |= f` (map_index) on arrays "
              "absolutise the index with the same helper", floor=8)
    vv = dict(adt_variants(facts, "jaq_json::Val") or [])
    if not vv:
        t6.missing_anchor("jaq_json::Val")
        return t6
    V = lambda k: C(f"jaq_json::Val::{k}", *([ANY] * vv[k]))
    INT = C("jaq_json::Val::Num", C("jaq_json::num::Num::Int", ANY))

    def takes_pos(d):
        hf = facts.hir_fn(d) if d and d.startswith("jaq_json::") else None
        return hf is not None and any("PosUsize" in (p_.get("ty") or "") for p_ in hf.get("params", []))

    def helpers_of(fn_rx, value, what):
        fs = facts.hir_find(fn_rx, "jaq_json")
        if len(fs) != 1:
            t6.missing_anchor(what)
            return None
        f = fs[0]
        inits = {}
        for s in find(f["body"], lambda n: n.get("k") == "Let" and n.get("init") is not None):
            for b in find(s["pat"], lambda n: n.get("k") == "Bind"):
                inits[b["id"]] = s["init"]
        fallback = None
        for m in find(f["body"], lambda n: n.get("k") == "Match" and n.get("src") == "Normal" and "jaq_json::Val" in n["scrut_ty"]):
            cs = candidates(m["arms"], value)
            if not cs or cs[-1][1] != "sure":
                continue
            arm = m["arms"][cs[-1][0]]
            if strip(arm["pat"]).get("k") == "Wild":
                continue
            helpers = set()

            seen_fn = set()

            def into(d, depth):
                """a first-party helper that does not take a position itself (e.g. takes the raw index value): the
                position helpers it uses are the ones of this arm"""
                if d and d.startswith("jaq_json::") and d not in seen_fn and depth < 3:
                    seen_fn.add(d)
                    hf = facts.hir_fn(d)
                    if hf is not None:
                        scan(hf["body"], depth + 1)

            def scan(expr, depth=0):
                for n in find(expr, lambda n: n.get("k") in ("Path", "MethodCall")):
                    if n["k"] == "MethodCall":
                        d = n["m"].get("res") or n["m"].get("def")
                        if takes_pos(d):
                            helpers.add(d)
                        else:
                            into(d, depth)
                        continue
                    d = n["path"].get("def")
                    if (n["path"].get("dk") or "") in ("Fn", "AssocFn") and takes_pos(d):
                        helpers.add(d)
                    elif (n["path"].get("dk") or "") in ("Fn", "AssocFn"):
                        into(d, depth)
                    i = n["path"].get("id")
                    if i in inits and depth < 3:
                        # a local bound to a helper, to a tuple of helpers or to a closure shared by several arms
                        scan(inits[i], depth + 1)
            scan(arm["body"])
            if not helpers and fallback is None:
                # an arm for this value that positions nothing (e.g. the expansion of a `matches!` test in front of the real
                # dispatch): remember it, but prefer a later match whose arm for this value does position
                fallback = (helpers, arm["sp"])
                continue
            if helpers:
                return helpers, arm["sp"]
        if fallback is not None:
            return fallback
        t6.violate(f"{what}/arm", f"{what}: no arm decides {value}")
        return None

    PAIRS = [("slice", k, r"^<jaq_json::Val as jaq_core::val::ValT>::range$", r"^<jaq_json::Val as jaq_core::val::ValT>::map_range$", V(k), V(k)) for k in ("BStr", "TStr", "Arr")]
    PAIRS.append(("index", "Arr", r"^jaq_json::<impl jaq_json::Val>::index_opt$|^jaq_json::Val::index_opt$", r"^<jaq_json::Val as jaq_core::val::ValT>::map_index$", T(V("Arr"), INT), V("Arr")))
    used = {}
    for op, k, rrx, wrx, rval, wval in PAIRS:
        r = helpers_of(rrx, rval, f"reader of {op} on {k}")
        w = helpers_of(wrx, wval, f"updater of {op} on {k}")
        for side, x in (("read", r), ("update", w)):
            if x is None:
                continue
            t6.examined((op, k, side), True, {"operation": op, "container": k, "side": side, "position_helper": sorted(x[0])})
            if len(x[0]) != 1:
                t6.violate(f"{op}/{side}/{k}", f"{side} of {op} on {k} positions with {sorted(x[0]) or 'no position helper'}; exactly one helper per container kind is expected", where=x[1])
        if r and w and r[0] != w[0]:
            t6.violate(f"{op}/pair/{k}", f"{op} on {k}: reading positions with {sorted(r[0])} but updating positions with {sorted(w[0])}: the update would not change what the read yields", where=w[1])
        used[(op, k)] = (r, w)
    for side in (0, 1):
        a, b = used.get(("slice", "TStr"), (None, None))[side], used.get(("slice", "BStr"), (None, None))[side]
        if a and b and a[0] and a[0] == b[0]:
            t6.violate(f"slice/unit/{side}", f"text strings and byte strings are sliced with the same helper {sorted(a[0])}: one of them counts in the wrong unit", where=a[1])
    return t6


def rule_ctx_agreement(facts, rid):
    """The evaluators shape the context of a term the same way (cross-check of siblings): what one evaluator does to the
    context (which bindings it drops, replaces or adds) for a term kind, the others do as well."""
    t8 = Rule(rid, "the value, path and update evaluators apply the same operations to the context (`Ctx` methods: skip_vars, with_vars, cons_*; rebuilding the context) "
              "for every term kind: a call, a variable reference or a native sees the same bindings whether it is evaluated for values, for paths or in an update "
              "(an evaluator that keeps bindings another one drops resolves variables differently and retains the caller's bindings per call)", floor=3)
    variants = adt_variants(facts, "jaq_core::compile::Term") or []
    tab = {}
    for mode in MODES:
        f, m = evaluator(facts, mode)
        if m is None:
            t8.missing_anchor(f"TermId::{mode}")
            return t8
        for name, nf in variants:
            got = set()
            for i, kind in candidates(m["arms"], C(f"jaq_core::compile::Term::{name}", *([ANY] * nf))):
                a = m["arms"][i]
                for c in callees(a["body"]):
                    if re.search(r"^jaq_core::filter::Ctx(::<.*>)?::\w+$", c) and not c.endswith(("::clone", "::lut", "::data")):
                        got.add(c.split("::")[-1])
            tab[(mode, name)] = got
    for name, nf in variants:
        r, p, u = tab[("run", name)], tab[("paths", name)], tab[("update", name)]
        if not (r or p or u):
            continue
        t8.examined(name, True, {"term": name, "run": sorted(r), "paths": sorted(p), "update": sorted(u)})
        if r != p:
            t8.violate(f"ctx/{name}/paths", f"{name}: the value evaluator applies {sorted(r)} to the context, the path evaluator {sorted(p)}: the same term sees different bindings (and keeps different ones alive) in the two modes")
        # the update evaluator is built differently (it threads an update function, and re-creates contexts elsewhere), so only
        # the operations that drop or replace bindings are compared with it: those it must apply as well
        DROPS = {x for x in r if re.search(r"^(skip|drop|truncate|with)_", x)}
        if not DROPS <= u and u:
            t8.violate(f"ctx/{name}/update", f"{name}: the value evaluator applies {sorted(DROPS)} to the bindings of the context, the update evaluator only {sorted(u)}")
    return t8


def rule_vacant_insert(facts, rid):
    """`.[k] |= f` on an object without the key: the key is created only if f yields something."""
    from mirutil import Body, op_local
    r9 = Rule(rid, "an update that yields nothing creates no position: in the element update of objects (map_index), inserting into a vacant entry is "
              "control-dependent on the updater's first output being `Some` (a test of the Option that comes out of `next()`), so `del(.missing)` and `.missing |= empty` leave the object unchanged", floor=1)
    js = facts.mir_find(r"^<jaq_json::Val as jaq_core::val::ValT>::map_index$", "jaq_json")
    if len(js) != 1:
        r9.missing_anchor("<Val as ValT>::map_index")
        return r9
    b = Body(js[0])
    nexts = b.find_calls(r"core::iter::traits::iterator::Iterator::next$")
    from_next = set()
    for n in nexts:
        from_next |= b.derived_from([b.call_result_local(n)])
    opt_switches = []
    for i, bb in enumerate(b.bbs):
        t = bb["t"]
        if t["k"] != "Switch" or op_local(t["o"]) is None:
            continue
        d = op_local(t["o"])
        for bb2 in b.bbs:
            for s_ in bb2["st"]:
                if s_.get("k") == "A" and s_["p"]["l"] == d and not s_["p"].get("pr") and s_["r"].get("k") == "Discr" \
                        and str(s_["r"].get("pty", "")).startswith("core::option::Option<") and s_["r"]["p"]["l"] in from_next:
                    opt_switches.append(i)
    inserts = b.find_calls(r"indexmap::map::core::entry::VacantEntry::<.*>::(insert|insert_entry|insert_sorted)$|indexmap::map::core::entry::Entry::<.*>::or_(insert|insert_with|insert_with_key|default)$|indexmap::map::IndexMap::<.*>::(insert|insert_full)$")
    if not inserts:
        r9.missing_anchor("insertion into a vacant object entry in map_index")
    for c in inserts:
        ok = any(b.controlled_by(c, sw) for sw in opt_switches)
        r9.examined(("insert", b.bbs[c]["t"]["sp"]), True, {"insert": (b.bbs[c]["t"].get("fn") or "").split("::")[-1], "only_if_the_update_yields": ok})
        if not ok:
            r9.violate("vacant-insert", "map_index inserts a key that the object does not have even when the update yields nothing (the insertion is not conditional on the updater's output being `Some`): `del(.missing)` / `.missing |= empty` create the key", where=b.bbs[c]["t"]["sp"])
    return r9


def rule_index_input(facts, rid):
    """`f[x]`: the index filter x is evaluated on the input of the whole term (with its context), in all evaluators."""
    r = Rule(rid, "in all three evaluators the index filters of a path term are run on the term's own context-and-input pair: everything their argument is built from "
             "goes back to a context/value pair (the evaluator's parameter or its pass-through copy), never to an output of the path's subject "
             "(`(.a)[.k]` must look up `.k` in the input, not in `.a`, for values, for `path(..)` and for updates alike)", floor=3)
    for mode in MODES:
        f, m = evaluator(facts, mode)
        if m is None:
            r.missing_anchor(f"TermId::{mode}")
            continue
        cs = candidates(m["arms"], C("jaq_core::compile::Term::Path", ANY, ANY))
        if len(cs) != 1:
            r.missing_anchor(f"Path arm of TermId::{mode}")
            continue
        a = m["arms"][cs[0][0]]
        binds = {}
        for b in find(f["params"], lambda n: n.get("k") == "Bind"):
            binds[b["id"]] = (b.get("ty"), None)
        for l in find(a["body"], lambda n: n.get("k") == "Let"):
            for b in find(l["pat"], lambda n: n.get("k") == "Bind"):
                binds[b["id"]] = (b.get("ty"), l.get("init"))
        for c in find(a["body"], lambda n: n.get("k") == "Closure"):
            for b in find(c.get("params", []), lambda n: n.get("k") == "Bind"):
                binds.setdefault(b["id"], (b.get("ty"), None))
        pb = {i for ids in pat_binds(a["pat"]).values() for i in ids}
        n_idx = 0

        def roots_of(exprs, env):
            """bindings without initialiser (parameters of the function or of closures) that the expressions are built from"""
            roots, st, seen = set(), [x["path"]["id"] for x in find(exprs, lambda y: y.get("k") == "Path" and y["path"].get("id") is not None)], set()
            while st:
                i = st.pop()
                if i in seen:
                    continue
                seen.add(i)
                ty, init = env.get(i, (None, None))
                if init is None:
                    roots.add((i, ty or "?"))
                    continue
                st += [x["path"]["id"] for x in find(init, lambda y: y.get("k") == "Path" and y["path"].get("id") is not None)]
            return roots

        def env_of(fn_params, body):
            env = {}
            for b_ in find(fn_params, lambda n: n.get("k") == "Bind"):
                env[b_["id"]] = (b_.get("ty"), None)
            for l_ in find(body, lambda n: n.get("k") == "Let"):
                for b_ in find(l_["pat"], lambda n: n.get("k") == "Bind"):
                    env[b_["id"]] = (b_.get("ty"), l_.get("init"))
            for c_ in find(body, lambda n: n.get("k") == "Closure"):
                for b_ in find(c_.get("params", []), lambda n: n.get("k") == "Bind"):
                    env.setdefault(b_["id"], (b_.get("ty"), None))
            return env

        def index_runs(body, bound):
            return [n for n in find(body, lambda n: n.get("k") == "MethodCall" and n["m"]["name"] == "run" and (n["m"].get("def") or "").startswith("jaq_core::filter::"))
                    if (strip(n["recv"]).get("path") or {}).get("id") is not None and (strip(n["recv"]).get("path") or {}).get("id") not in bound]
        sites = [(n, roots_of(n["args"], binds)) for n in index_runs(a["body"], pb)]
        # index filters run inside a first-party helper that the arm calls (e.g. `path_indices(path, &cv)`): the helper's
        # parameters are traced on through the arguments of the call
        for call in find(a["body"], lambda n: n.get("k") == "Call" and ((strip(n["f"]).get("path") or {}).get("def") or "").startswith("jaq_core::filter::")):
            hf = facts.hir_fn(strip(call["f"])["path"]["def"])
            if hf is None:
                continue
            henv = env_of(hf["params"], hf["body"])
            pids = [[b_["id"] for b_ in find(p_, lambda n: n.get("k") == "Bind")] for p_ in hf["params"]]
            for n in index_runs(hf["body"], set()):
                rs = set()
                for i, ty in roots_of(n["args"], henv):
                    pos = [k for k, ids in enumerate(pids) if i in ids]
                    if pos and pos[0] < len(call["args"]):
                        rs |= roots_of([call["args"][pos[0]]], binds)
                    elif not pos and i == (strip(n["recv"]).get("path") or {}).get("id"):
                        continue
                    else:
                        rs.add((i, ty))
                sites.append((n, rs))
        for n, roots in sites:
            n_idx += 1
            bad = sorted(t for i, t in roots if t != "?" and not re.match(r"^&?\(?jaq_core::filter::Ctx<", t))
            r.examined((mode, n["sp"]), True, {"evaluator": mode, "index_filter_argument_built_from": sorted(t[:50] for i, t in roots)})
            if bad:
                r.violate(f"index-input/{mode}", f"TermId::{mode}, Path: the argument of an index filter is built from a value of type {bad} (an output of the subject), not only from the term's context-and-input pair: `(.a)[.k]` looks `.k` up in the wrong value in this evaluator", where=n["sp"])
        if not n_idx:
            r.missing_anchor(f"run of the index filters in the Path arm of TermId::{mode}")
    return r

def run(facts, tier):
    t0 = time.time()
    rules = []
    variants = adt_variants(facts, TERM) or []
    ev = {m: evaluator(facts, m) for m in MODES}

    # ---------------- T2.1 exhaustive, explicit
    t1 = Rule("T2.1", "each of the three evaluators (values, paths, updates) decides every one of the term kinds by an explicit arm (no wildcard that would silently give a new kind some default meaning)", floor=80)
    arm_of = {}
    for mode in MODES:
        f, m = ev[mode]
        if m is None:
            t1.missing_anchor(f"TermId::{mode}")
            continue
        for a in m["arms"]:
            p = a["pat"]
            if p["k"] in ("Wild", "Bind"):
                t1.violate(f"wildcard/{mode}", f"TermId::{mode} has a catch-all arm", where=a["sp"])
        for name, nf in variants:
            dom = [C(f"{TERM}::{name}", *([ANY] * nf))]
            if name == "Pipe":
                dom = [C(f"{TERM}::Pipe", ANY, C("core::option::Option::None"), ANY), C(f"{TERM}::Pipe", ANY, C("core::option::Option::Some", ANY), ANY)]
            for k, v in enumerate(dom):
                cs = candidates(m["arms"], v)
                key = name + (("/None", "/Some")[k] if name == "Pipe" else "")
                t1.examined((mode, key), True)
                if len(cs) != 1 or cs[0][1] != "sure":
                    t1.violate(f"arm/{mode}/{key}", f"TermId::{mode}: term kind {key} is not decided by exactly one unguarded arm ({cs})")
                else:
                    arm_of[(mode, key)] = m["arms"][cs[0][0]]
    if len(variants) < 28:
        t1.violate("variants", f"only {len(variants)} term kinds found (28 confirmed by hand)")
    rules.append(t1.finish())

    # ---------------- T2.2 which terms are paths
    t2 = Rule("T2.2", "path-ness: `path(f)` fails exactly for the value-constructing term kinds, updates fail for the same kinds plus try/label (documented), a variable is never a path, a filter argument is evaluated in the same mode, a label re-raises its break", floor=60)
    def err_closures(f):
        """ids of local closures that build Error::path_expr"""
        out = set()
        for s in find(f["body"], lambda n: n.get("k") == "Let" and n.get("init") is not None and strip(n["init"]).get("k") == "Closure"):
            if any("path_expr" in c for c in callees(s["init"])):
                for b in find(s["pat"], lambda n: n.get("k") == "Bind"):
                    out.add(b["id"])
        return out
    fails = {}
    for mode in ("paths", "update"):
        f, m = ev[mode]
        if m is None:
            continue
        errs = err_closures(f)
        if not errs:
            t2.violate(f"err-closure/{mode}", f"TermId::{mode}: the `not a path expression` error constructor was not found")
        fails[mode] = set()
        for (md, key), a in arm_of.items():
            if md != mode:
                continue
            b = strip(a["body"])
            is_err = b.get("k") == "Call" and strip(b["f"]).get("k") == "Path" and strip(b["f"])["path"].get("id") in errs
            if is_err:
                fails[mode].add(key.split("/")[0])
            t2.examined((mode, key), True, {"mode": mode, "term": key, "is_path": not is_err} if key in ("Arr", "Id", "Alt") else None)
    if "paths" in fails:
        if fails["paths"] != VALUE_TERMS:
            t2.violate("paths-set", f"path(..) fails for {sorted(fails['paths'])}; it must fail exactly for the value-constructing kinds {sorted(VALUE_TERMS)} (difference: {sorted(fails['paths'] ^ VALUE_TERMS)})")
    if "update" in fails:
        if fails["update"] != VALUE_TERMS | UPDATE_EXTRA:
            t2.violate("update-set", f"updates fail for {sorted(fails['update'])}; expected the value-constructing kinds plus try/label (difference: {sorted(fails['update'] ^ (VALUE_TERMS | UPDATE_EXTRA))})")
    # the Var arm
    bvars = adt_variants(facts, BIND) or []
    for mode in MODES:
        a = arm_of.get((mode, "Var"))
        f, m = ev[mode]
        if a is None:
            continue
        inner = [mm for mm in find(a["body"], lambda n: n.get("k") == "Match" and n.get("src") == "Normal")]
        if not inner:
            t2.violate(f"var/{mode}", f"TermId::{mode}: the Var arm does not decide on the kind of binding")
            continue
        errs = err_closures(f) if mode != "run" else set()
        for name, nf in bvars:
            cs = candidates(inner[0]["arms"], C(f"{BIND}::{name}", *([ANY] * nf)))
            if len(cs) != 1:
                t2.violate(f"var/{mode}/{name}", f"TermId::{mode}: binding kind {name} not decided")
                continue
            body = inner[0]["arms"][cs[0][0]]["body"]
            b = strip(body)
            cl = callees(body)
            if name == "Var":
                is_err = b.get("k") == "Call" and strip(b["f"]).get("k") == "Path" and strip(b["f"])["path"].get("id") in errs
                ok = is_err if mode != "run" else not any(c.endswith(("::run", "::paths", "::update")) for c in cl)
                what = "a variable has no path" if mode != "run" else "a variable yields its value"
            elif name == "Fun":
                meths = [n["m"]["name"] for n in find(body, lambda n: n.get("k") == "MethodCall" and n["m"]["name"] in MODES and (n["m"].get("def") or "").startswith("jaq_core::filter::"))]
                ok = meths == [mode]
                what = f"a filter argument is evaluated in {mode} mode"
            else:
                ok = bool(find(body, lambda n: n.get("k") in ("Path", "Call") and "Inner::Break" in str((n.get("path") or (strip(n.get("f", {})).get("path") if n.get("k") == "Call" else {}) or {}).get("def", ""))))
                what = "a label re-raises its break"
            t2.examined((mode, "Var", name), True, {"mode": mode, "binding": name, "ok": ok})
            if not ok:
                t2.violate(f"var/{mode}/{name}", f"TermId::{mode}, binding kind {name}: violated `{what}`", where=inner[0]["arms"][cs[0][0]]["sp"])
    rules.append(t2.finish())

    # ---------------- T2.3 branch mapping and operand order agree
    t3 = Rule("T2.3", "the three evaluators agree on branch selection and operand order: `if` evaluates the condition for values and maps true->then / false->else in every mode; `//` decides on the outputs of the left operand evaluated for values, with errors counting as truthy (so they surface); `,` and `|` evaluate the left operand first/outside; errors are never dropped by an adaptor", floor=14)
    for mode in MODES:
        a = arm_of.get((mode, "Ite"))
        if a is None:
            continue
        binds = pat_binds(a["pat"])
        calls = subterm_calls(a["body"], binds)
        cond = [c for c in calls if c[0] == 0]
        # `pipe(l, cv, r)` runs its first argument for values (helper of the value evaluator)
        for n in find(a["body"], lambda n: n.get("k") == "Call" and (strip(n["f"]).get("path") or {}).get("def") == "jaq_core::filter::pipe"):
            x = strip(n["args"][0])
            if x.get("k") == "Path" and x["path"].get("id") in binds.get(0, set()):
                cond.append((0, "run", 0))
        branch = [c for c in calls if isinstance(c[0], tuple)]
        iffs = [n for n in find(a["body"], lambda n: n.get("k") == "If") if any(c.endswith("as_bool") for c in callees(n["c"]))]
        ok = len(cond) == 1 and cond[0][1] == "run" and len(branch) == 1 and branch[0][0] == ("if", 1, 2) and branch[0][1] == mode and len(iffs) == 1
        t3.examined((mode, "Ite"), True, {"mode": mode, "condition_evaluated_with": [c[1] for c in cond], "branches": [c[0] for c in branch]})
        if not ok:
            t3.violate(f"ite/{mode}", f"TermId::{mode}, if-then-else: condition calls {cond}, branch calls {branch}; expected the condition via run and `if v.as_bool() {{then}} else {{else}}` evaluated in {mode} mode", where=a["sp"])
    for mode in MODES:
        a = arm_of.get((mode, "Alt"))
        if a is None:
            continue
        binds = pat_binds(a["pat"])
        calls = subterm_calls(a["body"], binds)
        left_run = [c for c in calls if c[0] == 0 and c[1] == "run"]
        cl = callees(a["body"])
        truthy_default = [n for n in find(a["body"], lambda n: n.get("k") == "MethodCall" and n["m"]["name"] == "map_or") if strip(n["args"][0]).get("k") == "Lit" and strip(n["args"][0])["lit"].get("bool") is True]
        droppers = [c for c in cl if re.search(r"Iterator::(flatten|filter_map)$|Result::<T, E>::(ok|unwrap_or|unwrap_or_default)$", c)]
        if mode == "run":
            ok = len(left_run) == 1 and bool(truthy_default) and not droppers and any(c[0] == 1 and c[1] == "run" for c in calls)
        else:
            branch = [c for c in calls if isinstance(c[0], tuple)]
            ok = len(left_run) == 1 and bool(truthy_default) and not droppers and len(branch) == 1 and branch[0][0] == ("if", 0, 1) and branch[0][1] == mode and any(c.endswith("Iterator::any") for c in cl)
        t3.examined((mode, "Alt"), True, {"mode": mode, "left_evaluated_for_values": len(left_run), "errors_count_as_truthy": bool(truthy_default), "error_dropping_adaptors": droppers})
        if not ok:
            t3.violate(f"alt/{mode}", f"TermId::{mode}, `f // g`: the decision must run `f` for values, treat an error as truthy (map_or(true, ..)) and then evaluate f or g in {mode} mode; found left runs {left_run}, truthy-default {len(truthy_default)}, droppers {droppers}", where=a["sp"])
    for mode in MODES:
        for key, lpos, rpos in (("Comma", 0, 1), ("Pipe/None", 0, 2)):
            a = arm_of.get((mode, key))
            if a is None:
                continue
            calls = subterm_calls(a["body"], pat_binds(a["pat"]))
            l = [c for c in calls if c[0] == lpos]
            r = [c for c in calls if c[0] == rpos]
            ok = len(l) == 1 and len(r) == 1 and l[0][1] == mode and r[0][1] == mode and l[0][2] == 0 and r[0][2] >= 1
            t3.examined((mode, key), True, {"mode": mode, "term": key, "left": l, "right": r})
            if not ok:
                t3.violate(f"order/{mode}/{key}", f"TermId::{mode}, {key}: the left operand must be evaluated first (outside any closure) and the right operand deferred, both in {mode} mode; found left {l}, right {r}", where=a["sp"])
    for mode in MODES:
        f, m = ev[mode]
        if f is None:
            continue
        dr = [c for c in callees(f["body"]) if re.search(r"Iterator::(flatten|filter_map)$", c)]
        t3.examined((mode, "no-dropping"), True)
        if dr:
            t3.violate(f"drop/{mode}", f"TermId::{mode} uses an adaptor that silently drops errors of a sub-filter: {dr}", where=f["sp"])
    rules.append(t3.finish())

    # ---------------- T2.5 update reductions named in the manual
    t5 = Rule("T2.5", "update mode follows the manual's reduction rules: `(f as $x | g) |= u`, `if`, calls with arguments fold the update over the binding/condition outputs (reduce, one resulting value); `(f|g) |= u` nests; `(f,g) |= u` sequences", floor=6)
    WANT = {"Pipe/Some": "jaq_core::filter::reduce", "Ite": "jaq_core::filter::reduce", "CallDef": "jaq_core::filter::reduce", "Native": "jaq_core::filter::reduce",
            "Comma": "jaq_core::box_iter::flat_map_then_with"}
    for key, want in WANT.items():
        a = arm_of.get(("update", key))
        if a is None:
            continue
        b = strip(a["body"])
        if b.get("k") == "Block" and b.get("expr") is not None:
            b = strip(b["expr"])
        outer = None
        if b.get("k") == "Call" and strip(b["f"]).get("k") == "Path":
            outer = strip(b["f"])["path"].get("def")
        t5.examined(key, True, {"term": key, "outermost_combinator": outer})
        if outer != want:
            t5.violate(f"update/{key}", f"update through {key} is built with `{outer}`; the manual's reduction rule needs `{want.split('::')[-1]}` (one result folded over all outputs, not one result per output)", where=a["sp"])
    a = arm_of.get(("update", "Pipe/None"))
    if a is not None:
        calls = subterm_calls(a["body"], pat_binds(a["pat"]))
        ok = [c for c in calls if c[0] == 0 and c[1] == "update" and c[2] == 0] and [c for c in calls if c[0] == 2 and c[1] == "update" and c[2] >= 1]
        t5.examined("Pipe/None", True)
        if not ok:
            t5.violate("update/Pipe/None", "`(f|g) |= u` is not `f |= (g |= u)`", where=a["sp"])
    rules.append(t5.finish())

    # ---------------- T2.4 path parts
    t4 = Rule("T2.4", "path parts: index, iteration and slice are mapped to the matching value primitives in all three modes (index/values/range, index+key/key_values/range+key, map_index/map_values/map_range)", floor=9)
    PART = "jaq_core::path::Part"
    WANTP = {"run": {"Index": "index", "All": "values", "Range": "range"}, "paths": {"Index": "index", "All": "key_values", "Range": "range"}, "update": {"Index": "map_index", "All": "map_values", "Range": "map_range"}}
    for mode in MODES:
        fs = facts.hir_find(rf"^jaq_core::path::<impl jaq_core::path::Part<V>>::{mode}$|^jaq_core::path::Part::<V>::{mode}$", "jaq_core")
        fs = [f for f in fs if "ValT" in (f.get("sig") or "") or True]
        if len(fs) != 1:
            t4.missing_anchor(f"path::Part::{mode} ({len(fs)})")
            continue
        m = [mm for mm in find(fs[0]["body"], lambda n: n.get("k") == "Match" and n.get("src") == "Normal")]
        if not m:
            t4.missing_anchor(f"match in path::Part::{mode}")
            continue
        NONE = C("core::option::Option::None")
        dom = {"Index": C(f"{PART}::Index", ANY), "All": C(f"{PART}::Range", NONE, NONE), "Range": C(f"{PART}::Range", C("core::option::Option::Some", ANY), NONE)}
        for k, v in dom.items():
            cs = candidates(m[0]["arms"], v)
            if len(cs) != 1 or cs[0][1] != "sure":
                t4.violate(f"part/{mode}/{k}", f"Part::{mode}: shape {k} not decided by one arm")
                continue
            prim = [c.split("::")[-1] for c in callees(m[0]["arms"][cs[0][0]]["body"]) if re.search(r"ValT::(index|values|range|key_values|map_index|map_values|map_range)$", c)]
            t4.examined((mode, k), True, {"mode": mode, "part": k, "primitive": prim})
            if prim != [WANTP[mode][k]]:
                t4.violate(f"part/{mode}/{k}", f"Part::{mode} on {k} uses value primitive(s) {prim}, expected [{WANTP[mode][k]}]", where=m[0]["arms"][cs[0][0]]["sp"])
    rules.append(t4.finish())

    # ---------------- T2.6 read and update position the same way
    rules.append(rule_position_helpers(facts, "T2.6").finish())

    # ---------------- T2.8 the evaluators shape the context alike
    rules.append(rule_ctx_agreement(facts, "T2.8").finish())

    # ---------------- T2.9 an update that yields nothing creates no position
    rules.append(rule_vacant_insert(facts, "T2.9").finish())

    # ---------------- T2.10 index filters see the input of the whole term
    rules.append(rule_index_input(facts, "T2.10").finish())

    # ---------------- T2.11 each path part is applied with its own `?`
    t11 = Rule("T2.11", "where `jaq_core::path` applies a path part (`Part::run/paths/update`) together with an optionality, the two come from the same `(part, opt)` pair -- bound by one "
               "tuple pattern, or the two fields of one tuple: `.a?.b` must not treat `.a` with the optionality of `.b` (or the other way round)", floor=1)

    def first_place(e):
        e = strip(e)
        while e.get("k") in ("Unary", "AddrOf", "Deref") and (e.get("e") or e.get("x")):
            e = strip(e.get("e") or e.get("x"))
        if e.get("k") == "Path" and "local" in (e.get("path") or {}):
            return ("local", e["path"]["id"])
        if e.get("k") == "Field" and strip(e["e"]).get("k") == "Path" and "local" in (strip(e["e"]).get("path") or {}):
            return ("field", strip(e["e"])["path"]["id"], e.get("name"))
        return None
    for f_ in facts.hir("jaq_core"):
        if not f_["def"].startswith("jaq_core::path::") or f_.get("test"):
            continue
        tuples = [{b_["id"] for b_ in find(t_, lambda n: n.get("k") == "Bind")} for t_ in find(f_["body"], lambda n: n.get("k") == "Tuple" and "pats" in n)]
        for mc in find(f_["body"], lambda n: n.get("k") == "MethodCall" and re.search(r"path::Part<", n.get("recv_ty") or "")):
            opts = [a_ for a_ in mc["args"] if (strip(a_).get("ty") or "").lstrip("&") == "jaq_core::path::Opt"]
            if not opts:
                continue
            r_, o_ = first_place(mc["recv"]), first_place(opts[0])
            if r_ is None or o_ is None or r_[0] != o_[0]:
                t11.examined(("part-opt", f_["def"], mc["sp"]), False)
                continue
            same = (r_[1] == o_[1]) if r_[0] == "field" else any({r_[1], o_[1]} <= t_ for t_ in tuples)
            t11.examined(("part-opt", f_["def"], mc["sp"]), True, {"fn": f_["def"], "method": mc["m"]["name"], "part_and_opt_from_one_pair": same})
            if not same:
                t11.violate(f"pairing/{f_['def']}/{mc['m']['name']}", f"`{f_['def']}` applies a path part with the optionality of another part (`{mc['m']['name']}`): `try`-ness of `.a?.b` lands on the wrong component", where=mc["sp"])
    rules.append(t11.finish())

    # ---------------- T2.7 native twins
    t7 = Rule("T2.7", "the natives that exist in a value and a path version (first, last, limit, skip) are the same code up to the evaluator they call", floor=4)
    f = facts.hir_fn("jaq_core::funs::paths")
    if f is None:
        t7.missing_anchor("jaq_core::funs::paths")
    else:
        for n in find(f["body"], lambda n: n.get("k") == "Tup" and len(n["xs"]) == 3 and strip(n["xs"][0]).get("k") == "Lit"):
            name = strip(n["xs"][0])["lit"].get("str")
            pair = strip(n["xs"][2])
            if pair.get("k") != "Tup" or len(pair["xs"]) != 2:
                continue
            sig = []
            for c in pair["xs"]:
                cl = callees(c)
                sig.append([re.sub(r"TermId>::(run|paths)$", "TermId>::EVAL", x) for x in cl])
            modes = [[x.split("::")[-1] for x in callees(c) if re.search(r"TermId>::(run|paths)$", x)] for c in pair["xs"]]
            ok = sig[0] == sig[1] and modes[0] and set(modes[0]) == {"run"} and set(modes[1]) == {"paths"}
            t7.examined(name, True, {"native": name, "same_code_up_to_mode": ok, "calls": len(sig[0])})
            if not ok:
                t7.violate(f"twin/{name}", f"the value and path versions of `{name}` differ beyond the evaluator they call", where=n["sp"])
    rules.append(t7.finish())

    explanation = ("Whether each arm computes the right positions is value-level and not decided. Decided, as finite tables over the term kinds extracted from the typed HIR of the three evaluators: "
                   "explicit coverage, which kinds are paths, branch mapping and operand order, error-preserving decisions of `//`, the manual's update reductions, the path-part primitives, "
                   "one position helper per container for reading and updating slices, and the native twins.")
    return finish("C02", "other", rules, t0, tier, explanation, ["spec tables transcribed from the property statement and docs/advanced.dj"])
