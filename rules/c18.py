"""C18 — --in-place replaces a file atomically and only after complete success (structural core)."""
import collections
import re
import time

import c06
from common import Rule, finish
from mirutil import Body, LocalGraph, inline_calls, norm_def, op_local
from mono import Mono

PERSIST = r"^tempfile::file::NamedTempFile::<F>::persist(_noclobber)?$"
RUN = r"^jaq::filter::run$"
WRITE = r"^jaq_fmts::write::(formats::)?write$"
TEMPFILE_IN = r"^tempfile::Builder::<'a, 'b>::(tempfile_in|make_in|tempfile|make)$"
AS_FILE = r"^tempfile::file::NamedTempFile::<F>::as_file(_mut)?$"


def agg_for_local(body, local):
    for i, bb in enumerate(body.bbs):
        for s in bb["st"]:
            if s.get("k") == "A" and s["p"]["l"] == local and not s["p"].get("pr") and s["r"].get("k") == "Agg" and s["r"]["ak"].startswith("Closure:"):
                return i, s
    return None


def in_place_rules(facts, b, anchor, w1, w2, w3, w6, w9):
    persists = b.find_calls(PERSIST)
    runs = b.find_calls(RUN)
    temps = b.find_calls(TEMPFILE_IN)
    # ---- W18.1 rename only on the success edge of the run
    if not persists:
        w1.missing_anchor("call to tempfile::NamedTempFile::persist in " + anchor)
    if not runs:
        w1.missing_anchor("call to jaq::filter::run in " + anchor)
    tmp_locals = {}
    for p in persists:
        ok = False
        why = []
        self_loc = b.arg_locals(p, 0)
        for r in runs:
            if not b.node_dominates(r, p):
                continue
            tc = b.try_continue_edge(r)
            if tc is None:
                why.append(f"result of run at {b.bbs[r]['t']['sp']} is not checked with `?` before the rename")
                continue
            _, sw, cont, brk = tc
            if not b.edge_dominates(cont, p):
                why.append(f"persist is reachable without taking the success edge of the run at {b.bbs[r]['t']['sp']}")
                continue
            # same temp file: the closure handed to run captures the local that persist consumes
            clos = [agg_for_local(b, l) for l in b.arg_locals(r)]
            clos = [c for c in clos if c]
            captured = set()
            for _, s in clos:
                for o in s["r"]["ops"]:
                    l = op_local(o)
                    if l is not None:
                        captured.add(l)
            # locals from which the captured references derive (reverse flow: &mut tmp)
            srcs = set()
            for src, dsts in b.flow().items():
                if dsts & captured:
                    srcs.add(src)
            same = bool(set(self_loc) & b.derived_from(srcs | captured)) or any(set(self_loc) & b.derived_from([s]) for s in srcs)
            if not same:
                why.append("the run before the rename does not write to the file that is renamed")
                continue
            ok = True
            tmp_locals[p] = (r, srcs)
        w1.examined(("persist", b.bbs[p]["t"]["sp"]), True, {"persist_at": b.bbs[p]["t"]["sp"], "guarded_by_run": ok})
        if not ok:
            w1.violate("persist-unguarded", "the temporary file is renamed over the input although the run for that file may have failed or not happened: " + "; ".join(why or ["no dominating run"]), where=b.bbs[p]["t"]["sp"])

    # ---- W18.9 a successful run is always followed by the rename
    breaks = set()
    for i_, t_ in b.calls():
        tc_ = b.try_continue_edge(i_)
        if tc_:
            breaks.add(tc_[3])
    for p, (r, srcs) in tmp_locals.items():
        tc = b.try_continue_edge(r)
        seen = b.reachable(tc[2][1], removed_nodes=[p], removed_edges=breaks, unwind=False)
        skipped = [x for x in seen if b.bbs[x]["t"]["k"] == "Return"]
        w9.examined(("replace-after-run", b.bbs[r]["t"]["sp"]), True, {"run_at": b.bbs[r]["t"]["sp"], "persist_at": b.bbs[p]["t"]["sp"], "success_paths_that_skip_the_rename": len(skipped)})
        if skipped:
            w9.violate("rename-skipped", "after a successful run the function can return without renaming the temporary file over the input (other than by propagating an error with `?`): "
                       "e.g. a filter that yields no output leaves the file unchanged instead of emptying it", where=b.bbs[p]["t"]["sp"])

    # ---- W18.2 output goes to the temp file
    for p, (r, srcs) in tmp_locals.items():
        for l in b.arg_locals(r):
            a = agg_for_local(b, l)
            if not a:
                continue
            cdef = a[1]["r"]["ak"][len("Closure:"):]
            cb = facts.mir_fn(cdef)
            if cb is None:
                w2.missing_anchor(cdef)
                continue
            cb = Body(cb)
            writes = cb.find_calls(WRITE)
            if not writes:
                w2.violate("no-write", f"closure `{cdef}` handed to the in-place run does not call the writer", where=cb.j["sp"])
            for wbb in writes:
                a0 = cb.arg_locals(wbb, 0)
                asf = cb.find_calls(AS_FILE)
                good = False
                for f in asf:
                    recv = cb.arg_locals(f, 0)
                    if set(recv) & cb.derived_from([1]) and set(a0) & cb.derived_from([cb.call_result_local(f)]):
                        good = True
                w2.examined((cdef, cb.bbs[wbb]["t"]["sp"]), True, {"closure": cdef, "write_at": cb.bbs[wbb]["t"]["sp"], "sink_is_tempfile": good})
                if not good:
                    w2.violate("sink", f"in-place output in `{cdef}` is not written to the temporary file's handle", where=cb.bbs[wbb]["t"]["sp"])

    # ---- W18.3 same directory, same path
    loads = b.find_calls(r"^jaq_fmts::read::load_file$")
    pathnew = [c for c in b.find_calls(r"^std::path::Path::new$") if any(b.node_dominates(c, t) for t in temps)]
    if not temps:
        w3.missing_anchor("tempfile::Builder::tempfile_in")
    S = set()
    for c in pathnew:
        S |= b.derived_from([b.call_result_local(c)])
    if not pathnew:
        # the path may be used directly without Path::new: fall back to the argument of load_file
        for c in loads:
            # the path that is read: everything that is a copy/borrow of the same local as the argument of load_file
            S |= b.derived_from(b.ref_roots(b.arg_locals(c)))
    for t in temps:
        callee = Body.callee(b.bbs[t]["t"])
        in_dir = callee.endswith(("tempfile_in", "make_in"))
        parents = [c for c in b.find_calls(r"^std::path::Path::parent$") if set(b.arg_locals(c)) & S]
        dirs = set()
        for c in parents:
            dirs |= b.derived_from([b.call_result_local(c)])
        good = in_dir and bool(set(b.arg_locals(t)) & dirs)
        w3.examined(("tempfile", b.bbs[t]["t"]["sp"]), True, {"tempfile_at": b.bbs[t]["t"]["sp"], "in_parent_of_input": good})
        if not good:
            w3.violate("tempdir", "the temporary file is not created in the directory of the input file (rename could cross file systems / not be atomic)", where=b.bbs[t]["t"]["sp"])
    for p in persists:
        a1 = set(b.arg_locals(p, 1))
        good = bool(a1 & S)
        w3.examined(("persist-target", b.bbs[p]["t"]["sp"]), True, {"persist_target_is_input_path": good})
        if not good:
            w3.violate("persist-target", "persist does not rename to the input path", where=b.bbs[p]["t"]["sp"])
    for c in loads:
        good = bool(set(b.arg_locals(c)) & S) or not pathnew
        w3.examined(("load", b.bbs[c]["t"]["sp"]), True)
        if not good:
            w3.violate("load-path", "the file that is read is not the path that is replaced", where=b.bbs[c]["t"]["sp"])

    # ---- W18.6 permissions preserved
    metas = [c for c in b.find_calls(r"^std::fs::(metadata|symlink_metadata)$") if set(b.arg_locals(c)) & S]
    setps = [c for c in b.find_calls(r"^std::fs::set_permissions$") if set(b.arg_locals(c, 0)) & S]
    for p in persists:
        m_ok = [m for m in metas if b.node_dominates(m, p)]
        w6.examined(("metadata-before", b.bbs[p]["t"]["sp"]), True, {"metadata_before_persist": bool(m_ok)})
        if not m_ok:
            w6.violate("metadata-before", "permissions of the original are not read before it is replaced", where=b.bbs[p]["t"]["sp"])
            continue
        perms = set()
        for m in m_ok:
            perms |= b.derived_from([b.call_result_local(m)])
        tc = b.try_continue_edge(p)
        q_ok = []
        for q in setps:
            if b.node_dominates(p, q) and set(b.arg_locals(q, 1)) & perms:
                q_ok.append(q)
        follows = False
        if tc and q_ok:
            follows = b.always_reaches(tc[2][1], q_ok)
        w6.examined(("set-after", b.bbs[p]["t"]["sp"]), True, {"set_permissions_after_persist_on_all_success_paths": follows})
        if not follows:
            w6.violate("set-after", "after a successful rename the original permission bits are not re-applied on every path (or the result of persist is not checked)", where=b.bbs[p]["t"]["sp"])



def not_repl(body):
    return not (body["def"].startswith("jaq::funs::repl") or (body.get("root") or "").startswith("jaq::funs::repl"))


def in_place_bodies(facts):
    """The driver function that performs the in-place replacement, found by what it does, not by name: a function of
    the command-line crate that -- with its private helpers inlined -- creates a temporary file, runs the filter and
    renames the temporary file (NamedTempFile::persist). Extracting the per-file work or the replacement step into
    helper functions therefore keeps the anchor. The smallest such function is analysed (with helpers inlined)."""
    cands = []
    keep = lambda d: re.search(RUN, d) is None and re.search(WRITE, d) is None
    for crate, body in facts.all_mir():
        if crate != "jaq" or body.get("test") or not not_repl(body):
            continue
        m = inline_calls(facts, body, ["jaq"], depth=3, only=keep)
        b = Body(m)
        def creates_temp():
            if b.find_calls(TEMPFILE_IN):
                return True
            for bb_ in m["bbs"]:
                for s_ in bb_["st"]:
                    if s_.get("k") == "A" and s_["r"].get("k") == "Agg" and (s_["r"].get("ak") or "").startswith("Closure:"):
                        cb_ = facts.mir_fn(s_["r"]["ak"][len("Closure:"):])
                        if cb_ is not None and Body(cb_).find_calls(TEMPFILE_IN):
                            return True
            return False
        if b.find_calls(PERSIST) and b.find_calls(RUN) and creates_temp():
            cands.append((len(m["bbs"]), m))
    cands.sort(key=lambda x: x[0])
    return [cands[0][1]] if cands else []



def rule_no_deferred_results(facts, rid):
    """first error stops the run: outcomes are looked at one by one, never gathered first"""
    r = Rule(rid, "the driver looks at the outcome of each file (and of each output) before it goes on: no iterator of `Result`s is collected into a container of results "
             "(`Vec<Result<..>>`) in the driver crates -- gathering them first means every later file has already been processed (and replaced) when the first error is seen", floor=20)
    nb = 0
    for crate, body in facts.all_mir():
        if crate not in ("jaq", "jaq_all") or body.get("test") or not not_repl(body):
            continue
        nb += 1
        bb_ = Body(body)
        for i, t in bb_.calls():
            if re.search(r"Iterator::collect$|iter::traits::collect::FromIterator>?::from_iter$|Iterator::partition$|Iterator::unzip$", t.get("fn") or ""):
                dty = bb_.locals[t["d"]["l"]]["ty"]
                if re.search(r"^(alloc::vec::Vec|alloc::collections::\w+::\w+|alloc::boxed::Box<\[)[<\[]?\s*core::result::Result<", dty):
                    r.violate(f"collect/{body['def'].split('::{closure')[0]}", f"`{body['def']}` gathers results into `{dty[:90]}` before looking at them: work behind the first failure (later files, later outputs) is done before the failure is noticed", where=t["sp"])
        r.examined(body["def"], False)
    r.instances = nb
    r.nontrivial = {("bodies", nb)} if nb else set()
    return r

def rule_sole_writer(facts, rid):
    """sole writer of file-system state, over the whole-program call graph (shared: W18.4, R6.7)"""
    w4 = Rule(rid, "outside the interactive repl, the only first-party code that can change the file system is module `jaq` (the command-line driver), and it does so only through tempfile creation, NamedTempFile::persist, set_permissions and the RAII deletion of the temporary file", floor=50)
    g = Mono(facts.mono())
    N = g.nodes
    fams = c06.load_families()
    fp = {"jaq_core", "jaq_std", "jaq_json", "jaq_fmts", "jaq_all", "jaq"}
    CREATE = re.compile(r"^std::fs::(File::create|File::create_new|File::options|OpenOptions::(write|append|create|create_new|truncate)|write)$")
    ALLOWED_ENTRY = re.compile(r"^(tempfile::Builder::<'a, 'b>::tempfile_in|tempfile::file::NamedTempFile::<F>::persist|std::fs::set_permissions)$")
    # the RAII deletion of a temporary file (wherever the guard is dropped) is the documented clean-up
    RAII_DELETE = "<tempfile::file::TempPath as core::ops::drop::Drop>::drop"
    par_main = g.reach([0])
    mut_cache = {}

    def mutates(n0):
        """Does node n0 (non-first-party) reach an fs-mutating/creating API through non-first-party direct calls?"""
        if n0 in mut_cache:
            return mut_cache[n0]
        seen = set()
        st = [n0]
        found = None
        while st and found is None:
            x = st.pop()
            if x in seen or N[x]["crate"] in fp or N[x]["def"] == RAII_DELETE:
                continue
            seen.add(x)
            if CREATE.search(N[x]["def"]):
                found = N[x]["def"]
                break
            if c06.is_leaf(N[x]):
                if c06.classify(fams, N[x]) == "fs_mutate":
                    found = N[x]["def"]
                continue
            st.extend(y for y, k, sp in g.direct[x])
        mut_cache[n0] = found
        return found

    for a in par_main:
        n = N[a]
        if n["crate"] not in fp:
            continue
        d = c06.fn_def(n)
        if d.startswith("jaq::funs::repl") or (n.get("root") or "").startswith("jaq::funs::repl"):
            continue
        for bnode, k, sp in g.direct[a]:
            if N[bnode]["crate"] in fp:
                continue
            what = mutates(bnode)
            w4.examined((d, N[bnode]["def"]), what is not None, {"caller": d, "entry": N[bnode]["def"], "reaches": what} if what else None)
            if what is None:
                continue
            module = "::".join(d.split("::{closure")[0].split("::")[:-1]) or d
            if not (n["crate"] == "jaq" and module == "jaq"):
                w4.violate(f"writer/{d}/{N[bnode]['def']}", f"`{d}` can change the file system through `{N[bnode]['def']}` -> ... -> `{what}`; only the command-line driver (module jaq) may", where=sp)
            elif not ALLOWED_ENTRY.search(N[bnode]["def"]):
                w4.violate(f"entry/{N[bnode]['def']}", f"the command-line driver changes the file system through `{N[bnode]['def']}` (-> `{what}`), which is not one of tempfile creation / persist / set_permissions / RAII drop", where=sp)
    return w4


def rule_exit_only_after_run(facts, rid):
    """the process is only ended where no temporary file is alive (shared: W18.7, R6.6)"""
    w7 = Rule(rid, "the driver ends the process (`process::exit`, `abort`) only in `main` and in the conversion of the final error to an exit status, i.e. after the run "
              "has returned and the RAII guard of an unfinished temporary file has deleted it: an exit from inside the run would leave `jaqXXXXXX` next to the input", floor=1)
    n_exit = 0
    FP_LIBS = {"jaq_core", "jaq_std", "jaq_json", "jaq_fmts"}
    lg_all = LocalGraph(facts, FP_LIBS)
    exits_cache = {}
    for crate, body in facts.all_mir():
        if crate not in ("jaq", "jaq_all") or body.get("test") or not not_repl(body):
            continue
        bb_ = Body(body)
        for i, t in bb_.calls():
            c = Body.callee(t) or ""
            if re.search(r"^std::process::(exit|abort)$", c) or re.search(r"^std::process::(exit|abort)$", t.get("fn") or ""):
                n_exit += 1
                fn_ = body["def"].split("::{closure")[0]
                ok = re.search(r"as std::process::Termination>::report$", fn_) is not None or fn_ == "jaq::main"
                w7.examined((fn_, c), True, {"caller": fn_, "ends_process_with": c, "after_the_run": ok})
                if not ok:
                    w7.violate(f"exit/{fn_}", f"`{body['def']}` ends the process with `{c}`: destructors do not run, so an --in-place temporary file that is alive at that point stays on disk", where=t["sp"])
            elif t.get("crate") in FP_LIBS or t.get("res_crate") in FP_LIBS:
                # a first-party library function that ends the process itself (e.g. a convenience wrapper that turns `halt` into an exit)
                tgt = norm_def(t.get("res") or t.get("fn") or "")
                if tgt not in exits_cache:
                    exits_cache[tgt] = lg_all.reaches(tgt, lambda d: re.search(r"^std::process::(exit|abort)$", d) is not None, 4)
                if exits_cache[tgt]:
                    fn_ = body["def"].split("::{closure")[0]
                    ok = re.search(r"as std::process::Termination>::report$", fn_) is not None or fn_ == "jaq::main"
                    w7.examined((fn_, tgt), True, {"caller": fn_, "ends_process_through": tgt, "after_the_run": ok})
                    if not ok:
                        w7.violate(f"exit-via/{fn_}/{tgt}", f"`{body['def']}` calls `{tgt}`, which ends the process (`std::process::exit`) when the filter halts: destructors do not run, so an --in-place temporary file that is alive at that point stays on disk", where=t["sp"])
    if not n_exit:
        w7.missing_anchor("a call of std::process::exit in the driver (the `halt` exit status)")
    return w7



def run(facts, tier):
    t0 = time.time()
    rules = []
    anchors = in_place_bodies(facts)
    if not anchors:
        # fail closed, but still evaluate the who-may-call rules below: they say what replaced the missing construct
        r = Rule("W18.0", "anchor", floor=1)
        r.missing_anchor("a function of the command-line driver that calls tempfile::NamedTempFile::persist")
        rules.append(r.finish())
    w1 = Rule("W18.1", "the rename over the original (NamedTempFile::persist) is dominated by the Continue edge of the `?` applied to the result of the filter run whose output went to that temporary file", floor=1)
    w2 = Rule("W18.2", "inside the closure handed to that run every value is written to NamedTempFile::as_file_mut() of the captured temporary file (not to the input path, not to stdout)", floor=1)
    w3 = Rule("W18.3", "the temporary file is created in the parent directory of the input path and renamed to that same path (rename within one file system)", floor=3)
    w6 = Rule("W18.6", "the permission bits are read from the input path before the rename and re-applied to it after the rename, on every successful path", floor=2)
    w9 = Rule("W18.9", "once the run for a file has succeeded, every path on which the function returns -- other than the propagation of an error with `?` -- passes through the rename of "
              "the temporary file over the input: the replacement is not conditional on there having been output", floor=1)
    for mb in anchors:
        in_place_rules(facts, Body(mb), mb["def"], w1, w2, w3, w6, w9)
    rules += [w1.finish(), w2.finish(), w3.finish(), w6.finish(), w9.finish()]
    ANCHORS = {mb["def"] for mb in anchors} | {mb.get("root") for mb in anchors if mb.get("root")}

    # ---- W18.5 / W18.7 who-may-call inside the CLI crate
    w5 = Rule("W18.5", "the temporary file is never kept, leaked or detached from its RAII guard, and is not wrapped in a buffered writer whose Drop would swallow a failing final flush", floor=20)
    LEAK = re.compile(r"^tempfile::.*::(keep|into_parts|into_temp_path|into_file|disable_cleanup|into_inner)$|^core::mem::forget$|^core::mem::manually_drop::ManuallyDrop::<T>::new$|^alloc::boxed::Box::<T(, A)?>::leak$")
    BUF = re.compile(r"^std::io::buffered::(bufwriter::BufWriter|linewriter::LineWriter)::<W>::(new|with_capacity)$")
    for crate, body in facts.all_mir():
        if crate != "jaq" or body["def"].startswith("jaq::funs::repl") or (body.get("root") or "").startswith("jaq::funs::repl"):
            continue
        bb = Body(body)
        in_place_fn = body["def"] in ANCHORS or body.get("root") in ANCHORS
        for i, t in bb.calls():
            c = Body.callee(t) or ""
            w5.examined((body["def"], c, t["sp"]), bool(LEAK.search(c) or BUF.search(c)))
            if LEAK.search(c):
                w5.violate(f"leak/{body['def']}/{c}", f"`{body['def']}` calls `{c}`: the temporary file can outlive a failed run", where=t["sp"])
            if BUF.search(c) and in_place_fn:
                w5.violate(f"buffered/{body['def']}/{c}", f"`{body['def']}` wraps an output in `{c}`; a write error in the final implicit flush (Drop) would be lost before the rename", where=t["sp"])
    rules.append(w5.finish())

    # ---- W18.7 the process is only ended where no temporary file is alive
    rules.append(rule_exit_only_after_run(facts, "W18.7").finish())

    # ---- W18.8 outcomes are examined one at a time
    rules.append(rule_no_deferred_results(facts, "W18.8").finish())

    # ---- W18.4 sole writer of file-system state (MONO)
    rules.append(rule_sole_writer(facts, "W18.4").finish())

    explanation = ("Dominance, must-follow and value-flow rules on the MIR of jaq::real_main and of the closure handed to the in-place run, plus a who-may-call rule over the "
                   "whole-program call graph. Decides the structural core of C18: rename only after success, output to a temp file in the same directory with RAII deletion, permissions "
                   "read before and restored after, no other writer. Not decided: atomicity of rename(2) itself, the 0600 window between rename and chmod, byte equality with non-in-place output.")
    return finish("C18", "other", rules, t0, tier, explanation,
                  ["tempfile::NamedTempFile::persist is rename(2) and NamedTempFile deletes its file on drop", "value flow is flow-insensitive and over-approximating (can only make the rules more permissive)"])
