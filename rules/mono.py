"""Engine MONO: whole-program monomorphic call graph (facts from driver pass M).
Indirect calls resolve to every function reified (anywhere in the program) with the same
region-erased signature; virtual calls resolve to the vtable slot of every type unsized to
the same dyn type anywhere in the program. This over-approximates what can run."""
import collections
import re


class Mono:
    def __init__(self, j):
        self.j = j
        self.nodes = j["nodes"]
        n = len(self.nodes)
        self.direct = [[] for _ in range(n)]  # (dst, kind, span)
        for a, b, k, sp in j["edges"]:
            self.direct[a].append((b, k, sp))
        self.reified_by_sig = collections.defaultdict(set)
        self.reified_sites = collections.defaultdict(list)  # dst -> [(src, sig, how)]
        for a, sig, b, how in j["reified"]:
            self.reified_by_sig[sig].add(b)
            self.reified_sites[b].append((a, sig, how))
        self.vt = collections.defaultdict(lambda: collections.defaultdict(set))
        self.concretes = collections.defaultdict(set)
        for a, dk, conc, slots in j["unsize"]:
            self.concretes[dk].add(conc)
            for s, t in slots:
                self.vt[dk][s].add(t)
        self.indirect = collections.defaultdict(list)
        for a, sig, sp in j["indirect"]:
            self.indirect[a].append((sig, sp))
        self.virtual = collections.defaultdict(list)
        for a, dk, slot, m, sp in j["virtual"]:
            self.virtual[a].append((dk, slot, m, sp))
        self.statics = collections.defaultdict(list)
        for a, d, m in j["statics"]:
            self.statics[a].append((d, m))
        self.unresolved_indirect = []
        self.unresolved_virtual = []
        self._arity_cache = None
        self._succ_cache = {}

    @staticmethod
    def _arity(sig):
        # count top-level commas in the parameter list of "fn(a, b) -> r"
        m = sig.find("fn(")
        depth = 0
        cnt = 0
        nonempty = False
        i = m + 3
        while i < len(sig):
            c = sig[i]
            if c in "(<[":
                depth += 1
            elif c in ")>]":
                if depth == 0:
                    break
                if c == ">" and sig[i - 1] == "-":
                    pass
                else:
                    depth -= 1
            elif c == "," and depth == 0:
                cnt += 1
            if not c.isspace():
                nonempty = True
            i += 1
        return cnt + 1 if nonempty else 0

    def succ(self, n):
        """All possible successors of node n: (dst, kind, span, via)."""
        if n in self._succ_cache:
            return self._succ_cache[n]
        out = [(b, k, sp, None) for b, k, sp in self.direct[n]]
        for sig, sp in self.indirect.get(n, ()):
            targets = self.reified_by_sig.get(sig)
            if not targets:
                # no function with this exact signature was ever reified: fall back to all
                # reified functions of the same arity (sound over-approximation), and record it
                if self._arity_cache is None:
                    self._arity_cache = collections.defaultdict(set)
                    for s, ts in self.reified_by_sig.items():
                        self._arity_cache[self._arity(s)] |= ts
                targets = self._arity_cache.get(self._arity(sig), set())
                self.unresolved_indirect.append((n, sig, len(targets)))
            for t in targets:
                out.append((t, "indirect", sp, sig))
        for dk, slot, m, sp in self.virtual.get(n, ()):
            targets = self.vt.get(dk, {}).get(slot, set())
            if not targets and slot != -1:
                self.unresolved_virtual.append((n, dk, slot, m))
            for t in targets:
                out.append((t, "virtual", sp, f"{dk}#{slot}"))
        self._succ_cache[n] = out
        return out

    def reach(self, roots, removed=frozenset(), cut_edge=None):
        """BFS; returns parent map {node: (parent, kind, span)} for chains."""
        parent = {}
        dq = collections.deque()
        for r in roots:
            if r in removed or r in parent:
                continue
            parent[r] = None
            dq.append(r)
        while dq:
            n = dq.popleft()
            for b, k, sp, via in self.succ(n):
                if b in parent or b in removed:
                    continue
                if cut_edge is not None and cut_edge(n, b, k):
                    continue
                parent[b] = (n, k, sp)
                dq.append(b)
        return parent

    def chain(self, parent, n, limit=40):
        out = []
        cur = n
        while cur is not None and len(out) < limit:
            p = parent.get(cur)
            node = self.nodes[cur]
            out.append({"fn": node["name"][:160], "via": None if p is None else p[1], "at": None if p is None else p[2]})
            cur = None if p is None else p[0]
        out.reverse()
        return out

    def find(self, pred):
        return [i for i, n in enumerate(self.nodes) if pred(n)]

    def by_def(self, rx):
        r = re.compile(rx)
        return [i for i, n in enumerate(self.nodes) if r.search(n["def"])]
