"""Panic-site extraction from first-party MIR (used by C05 N5.b)."""
import collections
import re

from mirutil import Body

PANIC_CALLS = [
    ("panic", re.compile(r"^core::panicking::(panic|panic_fmt|panic_display|panic_explicit|unreachable_display|panic_nounwind\w*|panic_str\w*|panic_bounds_check|panic_const::\w+)$|^std::rt::(begin_panic|panic_fmt)|^core::panicking::panic_const")),
    ("assert_failed", re.compile(r"^core::panicking::assert_failed(_inner)?$|^core::panicking::assert_matches_failed$")),
    ("unwrap", re.compile(r"^core::(option::Option::<T>|result::Result::<T, E>)::(unwrap|expect|unwrap_err|expect_err)$")),
    ("index", re.compile(r"^core::ops::index::(Index::index|IndexMut::index_mut)$|^<.* as core::ops::index::(Index|IndexMut)<.*>>::(index|index_mut)$")),
    ("slice-api", re.compile(r"^core::slice::<impl \[T\]>::(split_at|split_at_mut|copy_from_slice|clone_from_slice|copy_within|swap|rotate_left|rotate_right|chunks|chunks_exact|windows|rchunks|split_first_chunk|as_chunks)$|^core::str::<impl str>::(split_at|split_at_mut)$")),
    ("vec-api", re.compile(r"^alloc::vec::Vec::<T, A>::(remove|insert|swap_remove|split_off|drain|splice)$|^alloc::string::String::(remove|insert|insert_str|drain|replace_range|split_off)$|^alloc::collections::vec_deque::VecDeque::<T, A>::(remove|insert|swap|split_off|drain)$")),
    ("bytes-api", re.compile(r"^bytes::(bytes::Bytes|bytes_mut::BytesMut)::(slice|slice_ref|split_to|split_off|advance|truncate_unchecked|unsplit|set_len)$|^<bytes::\S+ as bytes::buf::\S+>::(advance|put_\w+|copy_to_\w+)$|^bytes::buf::buf_mut::BufMut::put\w*$")),
    ("refcell", re.compile(r"^core::cell::RefCell::<T>::(borrow|borrow_mut)$")),
    ("misc", re.compile(r"^core::iter::traits::iterator::Iterator::step_by$|^core::char::methods::<impl char>::(from_digit|to_digit)$|^core::num::<impl [iu]\w+>::(from_str_radix|pow|abs|isqrt|ilog\w*|div_euclid|rem_euclid|next_power_of_two)$|^typed_arena::|^core::time::Duration::(from_secs_f\d+|new)$|^alloc::alloc::handle_alloc_error|^core::slice::<impl \[T\]>::(sort\w*|select_nth\w*)$|^indexmap::map::IndexMap::<K, V, S>::(swap_indices|move_index|shift_insert|insert_before)$|^core::str::<impl str>::(repeat)$|^alloc::slice::<impl \[T\]>::repeat$|^alloc::str::<impl str>::repeat$")),
]
ASSERTS = {"BoundsCheck": "bounds", "DivisionByZero": "div0", "RemainderByZero": "div0", "OverflowNeg": "overflow"}


def src_file(sp):
    return sp.split(":")[0]


def sites(facts, crates, skip_def=lambda d: False, discharged=None):
    """`discharged`: {(def, span, msg)} of assertion sites proved unfailing by the interval analysis (ranges.py); they are
    not inventory matter"""
    discharged = discharged or {}
    out = []  # (file, kind, what, fn, sp)
    for c in crates:
        for j in facts.mir(c):
            if skip_def(j["def"]) or skip_def(j.get("root") or ""):
                continue
            for i, bb in enumerate(j["bbs"]):
                if bb.get("cleanup"):
                    continue
                t = bb["t"]
                if t["k"] == "Call" and "fn" in t:
                    decl = t["fn"]
                    res = t.get("res") or decl
                    for kind, rx in PANIC_CALLS:
                        if rx.search(decl) or rx.search(res):
                            what = decl
                            if kind == "index":
                                st = (t.get("gargs") or ["?"])[0]
                                what = "Index on " + re.sub(r"<.*", "", re.sub(r"^&(mut )?", "", st))[:60]
                            exp = t.get("exp") or ""
                            if kind in ("panic", "assert_failed") and re.search(r"(^|>)debug_assert(_eq|_ne)?($|>)", t.get("expc") or ""):
                                break   # debug_assert!: compiled out of the shipped (release) binary; states an invariant, not a way to crash jaq
                            m = re.match(r"macro:(?:\$crate::)?(\w+)@", exp)
                            if kind in ("panic", "assert_failed") and m:
                                what = f"{m.group(1)}!"
                            if kind == "unwrap":
                                # unwrap and expect are the same way to panic (replacing one by the other is not a new site)
                                what = re.sub(r"::(unwrap|expect)$", "::unwrap", re.sub(r"::(unwrap_err|expect_err)$", "::unwrap_err", decl))
                            out.append((src_file(t["sp"]), kind, what, j["def"], t["sp"]))
                            break
                elif t["k"] == "Assert":
                    m = t["msg"]
                    kind = ASSERTS.get(m) or ("overflow" if m.startswith("Overflow(") else None)
                    if kind and (j["def"], t["sp"], m) not in discharged:
                        out.append((src_file(t["sp"]), kind, m, j["def"], t["sp"]))
    return out
