"""Engine TAINT: numeric discipline on user-controlled numbers (forward dataflow over the MIR of all
first-party bodies, context-insensitive interprocedural fixpoint).

A local is *tainted* when it holds (or wraps / refers to) an integer or float that comes from a
user value. Every arithmetic operation / lossy cast on a tainted operand (a *sink*) must be a
checked form or be control-dependent on a test of that same value."""
import collections
import re

from mirutil import Body, op_local, op_place, rvalue_reads

INT = {"i8", "i16", "i32", "i64", "i128", "isize", "u8", "u16", "u32", "u64", "u128", "usize"}
SIGNED = {"i8", "i16", "i32", "i64", "i128", "isize"}
FLOATS = {"f32", "f64"}
BITS = {"i8": 8, "u8": 8, "i16": 16, "u16": 16, "i32": 32, "u32": 32, "i64": 64, "u64": 64, "i128": 128, "u128": 128, "isize": 64, "usize": 64, "f32": 32, "f64": 64}

SRC_CALLS = re.compile("|".join([
    r"^jaq_json::num::Num::(as_isize|as_f64|as_pos_usize)$",
    r"^jaq_json::Val::(as_isize|as_f64|as_num|as_pos_usize)$",
    r"^<jaq_json::Val as jaq_std::ValT>::(as_isize|as_f64)$",
    r"^jaq_std::ValT::(as_isize|as_f64)$",
    r"^jaq_std::ValTx::(try_as_isize|try_as_i32|try_as_f64)$",
    r"^num_traits::cast::ToPrimitive::to_(isize|usize|i\d+|u\d+|f64|f32)$",
    r"^<num_bigint::\S+ as num_traits::cast::ToPrimitive>::to_",
]))

# downcasts that read the numeric payload of a user value: (type substring, variant names)
SRC_VARIANTS = [("jaq_json::num::Num", {"Int", "Float"}), ("jaq_json::Val", {"Int", "Float"}), ("ciborium_ll::hdr::Header", {"Positive", "Negative", "Float"}),
                ("toml_span::value::ValueInner", {"Integer", "Float"})]
SRC_FIELDS = [("jaq_json::num::PosUsize", 1)]

PRESERVE = re.compile("|".join([
    r"^core::option::Option::<T>::(unwrap|expect|unwrap_or|unwrap_or_default|unwrap_or_else|map|map_or|map_or_else|and_then|ok_or|ok_or_else|copied|cloned|filter|or|or_else|as_ref|as_mut|take|unwrap_unchecked|zip|xor|get_or_insert|get_or_insert_with|insert|replace|is_some_and|inspect)$",
    r"^core::result::Result::<T, E>::(ok|unwrap|expect|unwrap_or|unwrap_or_else|unwrap_or_default|map|map_err|and_then|or_else|as_ref|copied|cloned|map_or|map_or_else|unwrap_unchecked)$",
    r"^core::bool::<impl bool>::(then|then_some)$",
    r"core::ops::try_trait::Try>::branch$", r"^core::ops::try_trait::Try::branch$",
    r"^core::convert::(From::from|Into::into|TryFrom::try_from|TryInto::try_into)$",
    r"^<\S+ as core::convert::(From|Into|TryFrom|TryInto)<.*>>::(from|into|try_from|try_into)$",
    r"^core::convert::num::",
    r"^core::clone::Clone::clone$", r"^<\S+ as core::clone::Clone>::clone$", r"^core::ops::deref::Deref::deref$", r"^core::borrow::Borrow::borrow$",
    r"^core::num::<impl [iu]\w+>::(unsigned_abs|signum|checked_\w+|saturating_\w+|wrapping_\w+|overflowing_\w+|abs_diff|rem_euclid|div_euclid|cast_signed|cast_unsigned|to_\w+|from_\w+|swap_bytes|count_ones|leading_zeros|trailing_zeros)$",
    r"^(core|std)::f(32|64)::<impl f(32|64)>::\w+$", r"^libm::", r"^core::num::<impl f(32|64)>::\w+$",
    r"^num_traits::(cast::)?(AsPrimitive|NumCast|FromPrimitive|ToPrimitive)::",
    r"^core::iter::traits::iterator::Iterator::(next|copied|cloned)$",
    r"^core::ops::range::Range(Inclusive)?::<Idx>::new$",
]))
# results bounded by an untainted program quantity
BOUNDING = re.compile(r"^(core::cmp::(min|max|Ord::(min|max|clamp))|<\S+ as core::cmp::Ord>::(min|max|clamp)|core::num::<impl [iu]\w+>::(min|max|clamp))$")
# integer methods that inherit the overflow behaviour of the raw operator
RAW_ARITH_CALLS = re.compile(r"^core::num::<impl [iu]\w+>::(abs|pow|neg|next_power_of_two|isqrt|ilog\w*|unchecked_\w+|strict_\w+)$|^core::ops::arith::(Add|Sub|Mul|Neg|Div|Rem|Shl|Shr)::(add|sub|mul|neg|div|rem|shl|shr)$|^<[iu]\w+ as core::ops::arith::(Add|Sub|Mul|Neg|Div|Rem)<?.*>?>::(add|sub|mul|neg|div|rem)$|^core::iter::traits::accum::(Sum|Product)::")
PREDICATE_RET = "bool"
ARITH = {"AddWithOverflow": "Add", "SubWithOverflow": "Sub", "MulWithOverflow": "Mul", "Add": "Add", "Sub": "Sub", "Mul": "Mul", "Shl": "Shl", "Shr": "Shr",
         "AddUnchecked": "Add", "SubUnchecked": "Sub", "MulUnchecked": "Mul", "ShlUnchecked": "Shl", "ShrUnchecked": "Shr"}
DIVS = {"Div": "Div", "Rem": "Rem"}
CMP = {"Lt", "Le", "Gt", "Ge", "Eq", "Ne", "Cmp"}


def base_ty(t):
    t = t.strip()
    while t.startswith("&"):
        t = t[1:].lstrip()
        if t.startswith("mut "):
            t = t[4:]
    return t


def num_in_ty(t):
    """Primitive numeric type carried by (a wrapper of) this type, if any."""
    t = base_ty(t)
    if t in INT or t in FLOATS:
        return t
    m = re.match(r"^core::(option::Option|result::Result)<(&(mut )?)?([iuf]\w+)[,>]", t)
    if m and (m.group(4) in INT or m.group(4) in FLOATS):
        return m.group(4)
    return None


class Sink:
    def __init__(self, fn, kind, op, ty, bb, sp, operands, detail):
        self.fn, self.kind, self.op, self.ty, self.bb, self.sp, self.operands, self.detail = fn, kind, op, ty, bb, sp, operands, detail
        self.sanitised = None
        self.source = None


class Taint:
    def __init__(self, facts, crates):
        self.bodies = {}
        for c in crates:
            for j in facts.mir(c):
                self.bodies[j["def"]] = Body(j)
        self.tainted = collections.defaultdict(dict)  # def -> {local: source description}
        self.ret_tainted = {}  # def -> source
        self.sinks = []
        self.closure_by_span = {}
        for d, b in self.bodies.items():
            if b.j.get("kind") == "Closure":
                self.closure_by_span[":".join(b.j["sp"].split(":")[:3])] = d

    # ---- helpers
    def closure_of_local(self, b, local):
        ty = b.locals[local]["ty"]
        m = re.search(r"\{closure@([^ }]+?): \d+:\d+\}", ty)
        if m:
            return self.closure_by_span.get(m.group(1))
        return None

    def place_is_source(self, b, p):
        if not isinstance(p, dict):
            return None
        ty = b.locals[p["l"]]["ty"]
        pr = p.get("pr") or []
        for i, e in enumerate(pr):
            if isinstance(e, dict) and "d" in e:
                for sub, names in SRC_VARIANTS:
                    if e["d"] in names and sub in ty:
                        # must read the payload (a field projection follows)
                        if any(isinstance(x, dict) and "f" in x for x in pr[i + 1:]):
                            return f"payload of {sub.split('::')[-1]}::{e['d']}"
            if isinstance(e, dict) and "f" in e:
                for sub, idx in SRC_FIELDS:
                    if sub in base_ty(ty) and e["f"] == idx and i == len([x for x in pr[:i] if x == "*"]):
                        return f"field {idx} of {sub.split('::')[-1]}"
        return None

    def operand_taint(self, b, o):
        p = op_place(o)
        if p is None:
            return None
        s = self.place_is_source(b, p)
        if s:
            return s
        return self.tainted[b.defpath].get(p["l"])

    def mark(self, d, local, src):
        if local not in self.tainted[d]:
            self.tainted[d][local] = src
            return True
        return False

    # ---- transfer
    def step(self, d):
        b = self.bodies[d]
        changed = False
        T = self.tainted[d]
        for i, bb in enumerate(b.bbs):
            if bb.get("cleanup"):
                continue
            for s in bb["st"]:
                if s.get("k") != "A":
                    continue
                r = s["r"]
                k = r["k"]
                dst = s["p"]["l"]
                src = None
                if k in ("Use", "Cast", "Repeat"):
                    src = self.operand_taint(b, r["o"])
                    if k == "Cast" and src and not (r["ck"] in ("IntToInt", "IntToFloat", "FloatToInt", "FloatToFloat", "Transmute") or r["ck"].startswith("PointerCoercion")):
                        src = None
                elif k in ("Ref", "RawPtr"):
                    src = self.place_is_source(b, r["p"]) or T.get(r["p"]["l"])
                elif k == "Bin":
                    if r["op"] in CMP:
                        src = None
                    else:
                        src = self.operand_taint(b, r["a"]) or self.operand_taint(b, r["b"])
                elif k == "Un":
                    src = self.operand_taint(b, r["a"]) if r["op"] != "Not" or True else None
                    if r["op"] == "PtrMetadata":
                        src = None
                elif k == "Agg":
                    # wrappers only: Some(x), Ok(x), tuples, arrays of numbers
                    if r["ak"] in ("Tuple", "Array") or re.match(r"^Adt:core::(option::Option|result::Result|ops::control_flow::ControlFlow|ops::range::Range\w*)$", r["ak"]) or r["ak"].startswith("Adt:jaq_json::num::PosUsize"):
                        for o in r["ops"]:
                            src = src or self.operand_taint(b, o)
                if src and self.mark(d, dst, src):
                    changed = True
            t = bb["t"]
            if t["k"] != "Call":
                continue
            callee = Body.callee(t) or ""
            decl = t.get("fn") or ""
            dst = t["d"]["l"]
            args = t["args"]
            arg_src = [self.operand_taint(b, a) for a in args]
            anysrc = next((x for x in arg_src if x), None)
            res_src = None
            if SRC_CALLS.search(callee) or SRC_CALLS.search(decl):
                res_src = f"result of {decl.split('::')[-1]}()"
            elif BOUNDING.search(callee) or BOUNDING.search(decl):
                if all(arg_src[:2]) if len(arg_src) >= 2 else anysrc:
                    res_src = anysrc
            elif PRESERVE.search(callee) or PRESERVE.search(decl):
                # receiver (or any by-value argument) tainted
                res_src = anysrc
                # closures handed to combinators receive the payload of the receiver
                if arg_src and arg_src[0]:
                    for a in args[1:]:
                        l = op_local(a)
                        if l is None:
                            continue
                        cd = self.closure_of_local(b, l)
                        if cd and cd in self.bodies:
                            cb = self.bodies[cd]
                            for pl in range(2, cb.argc + 1):
                                if self.mark(cd, pl, arg_src[0]):
                                    changed = True
                # the result of a closure-taking combinator is whatever the closure returns (plus defaults)
                cds = [self.closure_of_local(b, op_local(a)) for a in args[1:] if op_local(a) is not None]
                cds = [c for c in cds if c and c in self.bodies]
                if cds and re.search(r"::(map|map_or|map_or_else|and_then|unwrap_or_else|then|or_else|filter|is_some_and)$", decl):
                    res_src = None
                    for cd in cds:
                        res_src = res_src or self.ret_tainted.get(cd)
                    if re.search(r"::(map_or|filter|or_else|unwrap_or_else)$", decl):
                        # default value / receiver passes through
                        if re.search(r"::map_or$", decl):
                            res_src = res_src or (arg_src[1] if len(arg_src) > 1 else None)
                        else:
                            res_src = res_src or arg_src[0]
            else:
                # first-party callee: parameters and return value
                target = callee if callee in self.bodies else decl if decl in self.bodies else None
                if target is None and args:
                    # Fn::call(&closure, (args,))
                    if re.search(r"core::ops::function::Fn(Mut|Once)?::call(_mut|_once)?$", decl):
                        l = op_local(args[0])
                        target = self.closure_of_local(b, l) if l is not None else None
                        if target and len(args) > 1 and arg_src[1]:
                            cb = self.bodies.get(target)
                            if cb:
                                for pl in range(2, cb.argc + 1):
                                    if self.mark(target, pl, arg_src[1]):
                                        changed = True
                elif target is not None:
                    cb = self.bodies[target]
                    for idx, sa in enumerate(arg_src):
                        if sa and idx + 1 <= cb.argc:
                            # only numeric-carrying parameters
                            pty = cb.locals[idx + 1]["ty"]
                            if num_in_ty(pty) or "PosUsize" in pty or re.search(r"\(.*\b(isize|usize|f64|i64)\b", pty):
                                if self.mark(target, idx + 1, sa):
                                    changed = True
                if target is not None and self.ret_tainted.get(target):
                    res_src = self.ret_tainted[target]
            if res_src:
                rty = b.locals[dst]["ty"]
                if not (base_ty(rty) == "bool" or base_ty(rty) == "()" or base_ty(rty) == "core::cmp::Ordering"):
                    if self.mark(d, dst, res_src):
                        changed = True
        # return value
        if 0 in T and d not in self.ret_tainted:
            rty = b.locals[0]["ty"]
            if num_in_ty(rty) or "PosUsize" in rty or re.search(r"\b(isize|usize|f64|i64|i32|i8)\b", rty):
                self.ret_tainted[d] = T[0]
                changed = True
        return changed

    def solve(self):
        for _ in range(30):
            ch = False
            for d in self.bodies:
                while self.step(d):
                    ch = True
            if not ch:
                break

    # ---- sinks
    def copies_of(self, b, local):
        """Locals holding the same value as `local` (through moves, copies, refs, derefs, casts and
        value-preserving calls), backwards and forwards."""
        key = (b.defpath, "copies")
        eq = getattr(b, "_eq", None)
        if eq is None:
            eq = collections.defaultdict(set)
            for bb in b.bbs:
                for s in bb["st"]:
                    if s.get("k") == "A" and s["r"]["k"] in ("Use", "Ref", "Cast", "RawPtr"):
                        pl = op_place(s["r"].get("o")) if "o" in s["r"] else s["r"]["p"]
                        if pl is not None:
                            # reads of the same place (same local and projection, derefs ignored) hold the same value:
                            # a match guard tests `*(&place)` while the arm body copies `place`
                            pr = [e for e in (pl.get("pr") or []) if e != "*"]
                            src = pl["l"] if not pr else ("place", pl["l"], repr(pr))
                            eq[src].add(s["p"]["l"])
                            eq[s["p"]["l"]].add(src)
                t = bb["t"]
                if t["k"] == "Call":
                    c = Body.callee(t) or ""
                    if PRESERVE.search(c) or PRESERVE.search(t.get("fn") or ""):
                        for a in t["args"][:1]:
                            l = op_local(a)
                            if l is not None:
                                eq[l].add(t["d"]["l"])
                                eq[t["d"]["l"]].add(l)
            b._eq = eq
        seen = {local}
        st = [local]
        while st:
            x = st.pop()
            for y in eq.get(x, ()):
                if y not in seen:
                    seen.add(y)
                    st.append(y)
        return seen

    def tests(self, b, locals_):
        """Switch blocks that branch on a *test of the value* held in one of locals_: a comparison
        (BinOp or PartialOrd/PartialEq call), a bool-returning predicate call on it, or a direct
        integer switch -- not a discriminant test of an Option/Result wrapper."""
        cache = getattr(b, "_tests", None)
        if cache is None:
            cache = b._tests = {}
        key = frozenset(locals_)
        if key in cache:
            return cache[key]
        bools = set()
        for bb in b.bbs:
            for s in bb["st"]:
                if s.get("k") == "A" and s["r"]["k"] == "Bin" and s["r"]["op"] in CMP:
                    if op_local(s["r"]["a"]) in locals_ or op_local(s["r"]["b"]) in locals_:
                        bools.add(s["p"]["l"])
            t = bb["t"]
            if t["k"] == "Call":
                rty = base_ty(b.locals[t["d"]["l"]]["ty"])
                if rty in ("bool", "core::cmp::Ordering", "core::option::Option<core::cmp::Ordering>"):
                    if any(op_local(a) in locals_ for a in t["args"]):
                        bools.add(t["d"]["l"])
        # bool values derived from those (negation, &&, copies)
        der = b.derived_from(bools) if bools else set()
        der = {l for l in der if base_ty(b.locals[l]["ty"]) in ("bool", "core::cmp::Ordering", "core::option::Option<core::cmp::Ordering>", "isize", "i8", "u8")} | bools
        out = []
        for i, bb in enumerate(b.bbs):
            t = bb["t"]
            if t["k"] == "Switch":
                l = op_local(t["o"])
                if l in der:
                    out.append(i)
                elif l in locals_ and base_ty(t["oty"]) in INT:
                    out.append(i)
        cache[key] = out
        return out

    def ancestors(self, b, local):
        """Locals from which `local` is computed through copies, casts, arithmetic and value-preserving calls."""
        back = getattr(b, "_back", None)
        if back is None:
            back = collections.defaultdict(set)
            for bb in b.bbs:
                for s in bb["st"]:
                    if s.get("k") == "A" and s["r"]["k"] in ("Use", "Ref", "Cast", "RawPtr", "Bin", "Un"):
                        if s["r"]["k"] == "Bin" and s["r"]["op"] in CMP:
                            continue
                        for src in rvalue_reads(s["r"]):
                            back[s["p"]["l"]].add(src)
                t = bb["t"]
                if t["k"] == "Call":
                    c = Body.callee(t) or ""
                    if PRESERVE.search(c) or PRESERVE.search(t.get("fn") or "") or BOUNDING.search(c):
                        for a in t["args"]:
                            l = op_local(a)
                            if l is not None:
                                back[t["d"]["l"]].add(l)
            b._back = back
        seen = {local}
        st = [local]
        while st:
            x = st.pop()
            for y in back.get(x, ()):
                if y not in seen:
                    seen.add(y)
                    st.append(y)
        return seen

    def guarded(self, b, bb, operand_locals):
        """Every path from the entry to block bb passes a switch that tests (an ancestor of) one of the
        operands, and each such switch has an outcome that avoids bb (so the test decides)."""
        for l in operand_locals:
            cs = set()
            for a in self.ancestors(b, l):
                cs |= self.copies_of(b, a)
            W = set(self.tests(b, cs))
            if not W:
                continue
            if bb in W:
                W = W - {bb}
            if bb in b.reachable(0, removed_nodes=W):
                continue
            ok = True
            for sw in W:
                # switches that lead to bb without passing another test
                outs = b.succ(sw)
                leads = [t for t, k in outs if t == bb or bb in b.reachable(t, removed_nodes=W)]
                if not leads:
                    continue
                if len(leads) == len(outs):
                    ok = False
                    break
            if ok:
                return True
        return False

    def nan_excluded(self, b, bb, operand_locals):
        """Every path from the entry to bb takes an edge that cannot be taken by NaN: the TRUE outcome of a
        comparison of (an ancestor of) the value, the true outcome of is_finite/is_normal, or the false
        outcome of is_nan/is_infinite-or-nan tests."""
        vals = set()
        for l in operand_locals:
            for a in self.ancestors(b, l):
                vals |= self.copies_of(b, a)
        # bool locals and what outcome excludes NaN: True -> the true outcome does
        excl = {}
        for blk in b.bbs:
            for s in blk["st"]:
                if s.get("k") == "A" and s["r"]["k"] == "Bin" and s["r"]["op"] in ("Lt", "Le", "Gt", "Ge", "Eq"):
                    if op_local(s["r"]["a"]) in vals or op_local(s["r"]["b"]) in vals:
                        excl[s["p"]["l"]] = True
            t = blk["t"]
            if t["k"] == "Call" and any(op_local(a) in vals for a in t["args"]):
                c = (Body.callee(t) or "").split("::")[-1]
                if c in ("is_finite", "is_normal", "lt", "le", "gt", "ge", "eq", "contains"):
                    excl[t["d"]["l"]] = True
                elif c in ("is_nan",):
                    excl[t["d"]["l"]] = False
        # propagate through copies and negation
        changed = True
        while changed:
            changed = False
            for blk in b.bbs:
                for s in blk["st"]:
                    if s.get("k") != "A" or s["p"].get("pr") or s["p"]["l"] in excl:
                        continue
                    r = s["r"]
                    if r["k"] == "Use" and op_local(r["o"]) in excl:
                        excl[s["p"]["l"]] = excl[op_local(r["o"])]
                        changed = True
                    elif r["k"] == "Un" and r["op"] == "Not" and op_local(r["a"]) in excl:
                        excl[s["p"]["l"]] = not excl[op_local(r["a"])]
                        changed = True
        safe_edges = set()
        for i, blk in enumerate(b.bbs):
            t = blk["t"]
            if t["k"] == "Switch" and op_local(t["o"]) in excl:
                zero = [x for v, x in t["ts"] if v == 0]
                if not zero:
                    continue
                false_t, true_t = zero[0], t["else"]
                safe_edges.add((i, true_t) if excl[op_local(t["o"])] else (i, false_t))
        if not safe_edges:
            return False
        return bb not in b.reachable(0, removed_edges=safe_edges)

    def collect_sinks(self):
        for d, b in self.bodies.items():
            T = self.tainted[d]
            for i, bb in enumerate(b.bbs):
                if bb.get("cleanup"):
                    continue
                for s in bb["st"]:
                    if s.get("k") != "A":
                        continue
                    if (s.get("exp") or "").startswith("macro:") and (s.get("exp") or "").split("@")[-1] in ("core", "std", "alloc"):
                        continue
                    r = s["r"]
                    if r["k"] == "Bin":
                        ty = base_ty(r["aty"])
                        if ty not in INT:
                            continue
                        sa, sb = self.operand_taint(b, r["a"]), self.operand_taint(b, r["b"])
                        op = ARITH.get(r["op"])
                        if op and (sa or sb):
                            if op in ("Shl", "Shr") and not sb:
                                continue
                            ls = [op_local(x) for x, sx in ((r["a"], sa), (r["b"], sb)) if sx and op_local(x) is not None]
                            self.sinks.append(self._sink(b, "S1", op, ty, i, s["sp"], ls, sa or sb))
                        op = DIVS.get(r["op"])
                        if op and (sb or (sa and ty in SIGNED and not op_const_is_safe(r["b"]))):
                            ls = [op_local(x) for x, sx in ((r["a"], sa), (r["b"], sb)) if sx and op_local(x) is not None]
                            self.sinks.append(self._sink(b, "S1", op, ty, i, s["sp"], ls, sa or sb))
                    elif r["k"] == "Un" and r["op"] == "Neg":
                        ty = base_ty(r["aty"])
                        sa = self.operand_taint(b, r["a"])
                        if ty in SIGNED and sa:
                            self.sinks.append(self._sink(b, "S1", "Neg", ty, i, s["sp"], [op_local(r["a"])], sa))
                    elif r["k"] == "Cast":
                        sa = self.operand_taint(b, r["o"])
                        if not sa:
                            continue
                        fr, to = base_ty(r["from"]), base_ty(r["ty"])
                        if r["ck"] == "FloatToInt":
                            self.sinks.append(self._sink(b, "S2", f"{fr}->{to}", to, i, s["sp"], [op_local(r["o"])], sa))
                        elif r["ck"] == "IntToInt" and fr in INT and to in INT:
                            lossy = BITS[to] < BITS[fr] or ((fr in SIGNED) != (to in SIGNED) and not (fr not in SIGNED and BITS[to] > BITS[fr]))
                            if lossy:
                                self.sinks.append(self._sink(b, "S3", f"{fr}->{to}", to, i, s["sp"], [op_local(r["o"])], sa))
                t = bb["t"]
                if t["k"] == "Call":
                    c = Body.callee(t) or ""
                    decl = t.get("fn") or ""
                    if RAW_ARITH_CALLS.search(c) or RAW_ARITH_CALLS.search(decl):
                        self_ty = base_ty((t.get("gargs") or [""])[0]) if "core::ops::arith" in decl or "accum" in decl else None
                        if self_ty is not None and self_ty not in INT:
                            # overloaded operator on a non-primitive type (Num, BigInt, f64): not a raw machine operation
                            m = re.match(r"^[iu]\w+$", self_ty)
                            if not m:
                                continue
                        srcs = [self.operand_taint(b, a) for a in t["args"]]
                        if any(srcs):
                            ls = [op_local(a) for a, sx in zip(t["args"], srcs) if sx and op_local(a) is not None]
                            name = decl.split("::")[-1]
                            self.sinks.append(self._sink(b, "S1", name, self_ty or "int", i, t["sp"], ls, next(x for x in srcs if x)))
        for s in self.sinks:
            b = self.bodies[s.fn]
            ops = [l for l in s.operands if l is not None]
            s.sanitised = self.guarded(b, s.bb, ops)
            if s.sanitised and s.kind == "S2":
                # a float-to-integer cast must in addition be unreachable for NaN
                s.sanitised = self.nan_excluded(b, s.bb, ops)
                if not s.sanitised:
                    s.detail = "guarded by comparisons only on their false outcome: NaN compares false with everything and reaches the cast"
        return self.sinks

    def _sink(self, b, kind, op, ty, bb, sp, operands, src):
        s = Sink(b.defpath, kind, op, ty, bb, sp, operands, None)
        s.source = src
        return s


def op_const_is_safe(o):
    k = o.get("k") if isinstance(o, dict) else None
    if k and "v" in k:
        return k["v"] not in (0, -1)
    return False
