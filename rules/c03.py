"""C03 — streams are produced on demand; consumers of a prefix never run the rest (structural clauses)."""
import collections
import json
import os
import re
import time

import c06
from c02 import MODES, evaluator, pat_binds, subterm_calls
from c17 import flush_rule
from common import Rule, VERIF, finish
from hirtab import ANY, C, adt_variants, candidates
from hirutil import find, strip
from mirutil import Body, op_local
from mono import Mono

STREAM = re.compile(r"jaq_core::exn::Exn<|jaq_core::exn::Error<|Result<jaq_json::Val, alloc::string::String>|Result<jaq_json::Val, std::io::error::Error>")
METH = re.compile(r"^(next|nth|last|count|collect|fold|try_fold|for_each|try_for_each|any|all|find|find_map|position|sum|product|max|min|max_by|min_by|max_by_key|min_by_key|reduce|partition|unzip|eq|cmp|next_back|rfold|try_rfold|from_iter|extend|advance_by|peek|next_if|nth_back)$")
FP = {"jaq_core", "jaq_std", "jaq_json", "jaq_fmts", "jaq_all", "jaq"}


def consumer(n):
    d = n["def"]
    last = d.split("::")[-1]
    if METH.match(last) and ("core::iter::traits::" in d or "adapters::peekable::Peekable" in d):
        return last
    return None



def self_type(name):
    """`<SELF as Trait>::method::<generic args>` -> SELF: what is consumed is a stream of values only if the iterator
    itself yields them; a closure argument that returns a Result (e.g. `slice.iter().try_for_each(|x| ..)`) does not
    make a finite container a value stream"""
    if not name.startswith("<"):
        return name
    depth = 0
    for i, ch in enumerate(name):
        if ch == "<":
            depth += 1
        elif ch == ">":
            depth -= 1
        elif depth == 1 and name.startswith(" as ", i):
            return name[1:i]
    return name

def forcing_sites(g, roots, removed):
    """Construction-time region CT = what the roots reach through direct calls without crossing a consuming
    iterator method on a stream type; every such crossing made from first-party code is a forcing site."""
    N = g.nodes
    seen = set(roots)
    st = list(roots)
    sites = collections.defaultdict(set)  # (file, method) -> {(caller, span)}
    while st:
        a = st.pop()
        for b, k, sp in g.direct[a]:
            if k not in ("call", "drop", "fallback"):
                continue
            nb = N[b]
            c = consumer(nb)
            if c and STREAM.search(self_type(nb["name"])):
                if N[a]["crate"] in FP:
                    sites[((sp or "?").split(":")[0], c)].add((c06.fn_def(N[a]), sp))
                continue
            if b not in seen and b not in removed:
                seen.add(b)
                st.append(b)
        for dk, slot, m, sp in g.virtual.get(a, ()):
            last = m.split("::")[-1]
            if "core::iter::traits::" in m and METH.match(last) and STREAM.search(dk) and N[a]["crate"] in FP:
                sites[((sp or "?").split(":")[0], last)].add((c06.fn_def(N[a]), sp))
    return seen, sites



def immediate_invokers(facts):
    """First-party functions that run a closure argument before they return: (1) the function itself calls a nullary
    closure parameter (a thunk, e.g. `collect_if_once(f)` starts with `f()`), or (2) it takes an `impl Fn*` and returns
    materialised data (no iterator, trait object or closure type in the result: the closure cannot have been kept,
    e.g. `Path::map_ref`). A closure passed to one of these is not a deferral."""
    out = {}
    for f in facts.hir("jaq_core"):
        if f.get("test") or "sig" not in f or "->" not in str(f["sig"]):
            continue
        ptys = [p_.get("ty") or "" for p_ in f.get("params", [])]
        ret = str(f["sig"]).rsplit("->", 1)[1]
        if any(t.startswith("impl Fn") for t in ptys) and not re.search(r"Iterator|dyn |impl |Delay|Box<|Results<|BoxIter", ret):
            out[f["def"]] = "takes a closure and returns materialised data"
    for j in facts.mir("jaq_core"):
        if "{closure" in j["def"] or not j.get("argc"):
            continue
        b = Body(j)
        params = b.derived_from(list(range(1, j["argc"] + 1)))
        for i, t in b.calls():
            if re.search(r"^core::ops::function::Fn(Once|Mut)?::call(_once|_mut)?$", t.get("fn") or "") and set(b.arg_locals(i, 0)) & params:
                a1 = t["args"][1] if len(t["args"]) > 1 else {}
                unit = (a1.get("k") or {}).get("ty") == "()" or (op_local(a1) is not None and b.locals[op_local(a1)]["ty"] == "()")
                if unit:
                    out[j["def"]] = "calls its thunk parameter itself"
    return out


def undeferred_runs(body, immediate, modes=("run", "paths")):
    """run/paths calls of the evaluator (on any receiver) that are executed when `body` is executed: not inside a
    closure, or only inside closures handed directly to an immediate invoker. Returns [(receiver local id, node)]."""
    out = []

    def rec(e, depth):
        if isinstance(e, list):
            for x in e:
                rec(x, depth)
            return
        if not isinstance(e, dict):
            return
        k = e.get("k")
        if k == "Closure":
            rec({kk: v for kk, v in e.items() if kk not in ("k", "sp", "ty", "exp")}, depth + 1)
            return
        if k in ("Call", "MethodCall"):
            c = (e["m"].get("res") or e["m"].get("def") or "") if k == "MethodCall" else ((strip(e["f"]).get("path") or {}).get("def") or "")
            if k == "MethodCall" and e["m"]["name"] in modes and (e["m"].get("def") or "").startswith("jaq_core::filter::") and depth == 0:
                r = strip(e["recv"])
                out.append(((r.get("path") or {}).get("id"), e))
            transparent = norm(c) in immediate
            for kk, v in e.items():
                if kk in ("sp", "ty", "exp", "adj", "adj_ty", "m"):
                    continue
                if transparent and kk == "args":
                    for a in v:
                        a2 = strip(a)
                        if isinstance(a2, dict) and a2.get("k") == "Closure":
                            rec({x: y for x, y in a2.items() if x not in ("k", "sp", "ty", "exp")}, depth)   # runs now: same depth
                        else:
                            rec(a, depth)
                else:
                    rec(v, depth)
            return
        for kk, v in e.items():
            if kk in ("sp", "ty", "exp", "adj", "adj_ty"):
                continue
            rec(v, depth)
    rec(body, 0)
    return out


def norm(d):
    return re.sub(r"::<[^<>]*>", "", d or "")

def run(facts, tier):
    t0 = time.time()
    rules = []
    g = Mono(facts.mono())
    N = g.nodes
    native, interp, codec = c06.roots_of(g)
    repl = {i for i, n in enumerate(N) if c06.fn_def(n).startswith("jaq::funs::repl")}
    driver = {i for i, n in enumerate(N) if re.match(r"^(jaq_all::data::run|jaq::filter::run|jaq_fmts::read::formats::(read|parse)|jaq_fmts::read::collect_if)\b", n["def"])}

    # ---------------- L3.1 forcing-site discipline
    l1 = Rule("L3.1", "forcing-site discipline: code that runs when a filter's output iterator is *constructed* (natives, the interpreter, their helpers) and the command-line driver consume a value stream only at the reviewed sites of tables/forcing_sites.json (e.g. `[f]` collects, `//` looks at the left operand, `last` folds, sorting collects keys, the single-output fast path); any new collect/count/peek/next at construction time is reported", floor=20)
    tab = json.load(open(os.path.join(VERIF, "rules", "tables", "forcing_sites.json")))["entries"]
    # reviewed per source file (where the reasons were written), evaluated per crate: moving a function between
    # files of a crate is not a new forcing site
    crate_of = lambda f: f.split("/")[0]
    reviewed = {(e["file"], e["method"]): e for e in tab}
    reviewed_crate = collections.Counter()
    for e in tab:
        reviewed_crate[(crate_of(e["file"]), e["method"])] += e["count"]
    seen, sites = forcing_sites(g, (native | interp | driver) - repl, repl)
    found_crate = collections.Counter()
    for key, ss in sorted(sites.items()):
        e = reviewed.get(key)
        found_crate[(crate_of(key[0]), key[1])] += len(ss)
        for s in ss:
            l1.examined((key, s), True)
        if len(l1.samples) < 5 and e:
            l1.samples.append({"file": key[0], "consumer": key[1], "sites": len(ss), "reason": e["reason"][:140]})
    for ck, n in sorted(found_crate.items()):
        r_ = reviewed_crate.get(ck, 0)
        if n <= r_:
            continue
        over = [k for k in sorted(sites) if (crate_of(k[0]), k[1]) == ck and len(sites[k]) > (reviewed[k]["count"] if k in reviewed else 0)]
        k0 = over[0]
        ss = sites[k0]
        callers = sorted({c for c, sp in ss})
        if r_ == 0:
            l1.violate(f"{ck[0]}/{ck[1]}", f"new construction-time forcing of a stream: `{ck[1]}` in {k0[0]} (in {callers}); the stream is consumed before its outputs are demanded", where=sorted(ss)[0][1], detail=sorted(ss))
        else:
            l1.violate(f"{ck[0]}/{ck[1]}/count", f"{n - r_} new construction-time forcing site(s) `{ck[1]}` in crate {ck[0]} ({', '.join(k[0] for k in over)}): {n} found, {r_} reviewed (callers {callers})", where=sorted(ss)[-1][1], detail=sorted(ss))
    l1.notes.append(f"construction-time region: {len(seen)} instances")
    if len(seen) < 5000:
        l1.violate("region", f"construction-time region has only {len(seen)} instances (roots lost?)")
    rules.append(l1.finish())

    # ---------------- L3.2 fast-path guards
    l2 = Rule("L3.2", "the single-output fast paths pull an element at construction time only under the guard `size_hint().1 == Some(1)`", floor=2)
    for rx, what in [(r"^jaq_core::box_iter::next_if_one$", "next_if_one"), (r"^jaq_core::into_iter::collect_if_once$", "collect_if_once")]:
        js = facts.mir_find(rx, "jaq_core")
        if len(js) != 1:
            l2.missing_anchor(what)
            continue
        b = Body(js[0])
        nexts = b.find_calls(r"core::iter::traits::iterator::Iterator::next$")
        hints = b.find_calls(r"core::iter::traits::iterator::Iterator::size_hint$")
        sws = []
        for h in hints:
            sws += b.switches_on([b.call_result_local(h)])
        for n in nexts:
            ok = any(b.controlled_by(n, sw) for sw in sws)
            l2.examined((what, b.bbs[n]["t"]["sp"]), True, {"fn": what, "next_guarded_by_size_hint": ok})
            if not ok:
                l2.violate(f"{what}/unguarded", f"`{what}` pulls an element from the stream without the size-hint guard: every pipe/flat-map would evaluate the first output of its left operand eagerly", where=b.bbs[n]["t"]["sp"])
        if not nexts:
            l2.violate(f"{what}/anchor", f"`{what}` no longer pulls an element (anchor lost)")
        # the constant compared against is Some(1): a promoted constant; check the literal 1 appears in the promoted bodies
        txt = json.dumps(js[0].get("promoted", []))
        if '"v": 1' not in txt and '"v":1' not in txt:
            l2.violate(f"{what}/bound", f"`{what}` does not compare the upper size bound with Some(1)")
    rules.append(l2.finish())

    # ---------------- L3.3 later operands are constructed lazily
    l3 = Rule("L3.3", "in the value and path evaluators every term kind constructs at most one sub-stream eagerly; the other operands are built inside closures that run on demand (`,` wraps its right operand in a lazy once-with; `|` builds the right side per left output), except the reviewed arms", floor=50)
    ALLOWED_TWO = {("run", "Alt"): "the right operand is built only in the branch where the left stream is already exhausted",
                   ("paths", "Alt"): "decision on the left operand run for values, then exactly one of the operands for paths",
                   ("run", "Fold"): "xs and init: xs is wrapped in a lazy list, init is the outer stream", ("paths", "Fold"): "same as run",
                   ("run", "TryCatch"): "the handler is built inside the closure; listed because the body is passed by value", ("paths", "TryCatch"): "same"}
    variants = adt_variants(facts, "jaq_core::compile::Term") or []
    IMMEDIATE = {norm(d) for d in immediate_invokers(facts)}
    l3.notes.append(f"immediate invokers: {sorted(IMMEDIATE)}")
    for mode in ("run", "paths", "update"):
        f, m = evaluator(facts, mode)
        if m is None:
            l3.missing_anchor(f"TermId::{mode}")
            continue
        for name, nf in variants:
            doms = [C(f"jaq_core::compile::Term::{name}", *([ANY] * nf))]
            if name == "Pipe":
                doms = [C("jaq_core::compile::Term::Pipe", ANY, C("core::option::Option::None"), ANY), C("jaq_core::compile::Term::Pipe", ANY, C("core::option::Option::Some", ANY), ANY)]
            for v in doms:
                cs = candidates(m["arms"], v)
                if len(cs) != 1:
                    continue
                a = m["arms"][cs[0][0]]
                calls = subterm_calls(a["body"], pat_binds(a["pat"]))
                eager = sorted({str(c[0]) for c in calls if c[2] == 0})
                l3.examined((mode, name, str(v["args"][1].get("ctor")) if name == "Pipe" else ""), len(calls) > 1, {"mode": mode, "term": name, "eager_operands": eager, "deferred": len([c for c in calls if c[2] > 0])} if name in ("Comma", "Pipe", "Alt") else None)
                if len(eager) > 1 and (mode, name) not in ALLOWED_TWO and mode != "update":  # the update evaluator is examined for derived operands only
                    l3.violate(f"{mode}/{name}", f"TermId::{mode}, {name}: operands {eager} are all constructed eagerly; later operands must be built on demand (a `first(f, g)` would start evaluating g)", where=a["sp"])
                # operands that are not sub-terms of the pattern themselves (the index filters inside a path) but are run
                # when the arm is run: closures handed to an immediate invoker do not defer anything
                binds_ = {i_ for ids in pat_binds(a["pat"]).values() for i_ in ids}
                extra = [n_ for rid_, n_ in undeferred_runs(a["body"], IMMEDIATE) if rid_ is not None and rid_ not in binds_]
                if extra and eager:
                    l3.examined((mode, name, "derived-operands"), True, {"mode": mode, "term": name, "eager_operands": eager, "derived_operands_run_at_once": len(extra)})
                    l3.violate(f"{mode}/{name}/derived", f"TermId::{mode}, {name}: besides operand {eager}, filters nested in another operand (e.g. the index filters of a path) are run as soon as the term is run, through closures handed to functions that call them at once ({', '.join(sorted(x.split('::')[-1] for x in IMMEDIATE if x.split('::')[-1] in str(a['body'])))}): they are evaluated before (and even if never) the first operand yields", where=extra[0]["sp"])
    # no operand is run twice by the value evaluator (a second run repeats the effects of the first: `input`, `debug`)
    f_run, m_run = evaluator(facts, "run")
    if m_run is not None:
        def max_runs(e, ids):
            """maximal number of run-calls on the given sub-term along one control path through e"""
            e = strip(e) if isinstance(e, dict) else e
            if isinstance(e, list):
                return sum(max_runs(x, ids) for x in e)
            if not isinstance(e, dict):
                return 0
            k = e.get("k")
            if k == "If":
                return max_runs(e["c"], ids) + max(max_runs(e.get("t"), ids), max_runs(e.get("f"), ids))
            if k == "Match":
                return max_runs(e["scrut"], ids) + max([max_runs(a_.get("guard"), ids) + max_runs(a_["body"], ids) for a_ in e["arms"]] or [0])
            own = 0
            if k == "MethodCall" and e["m"]["name"] == "run" and (e["m"].get("def") or "").startswith("jaq_core::filter::"):
                r_ = strip(e["recv"])
                if (r_.get("path") or {}).get("id") in ids:
                    own = 1
            return own + sum(max_runs(v, ids) for kk, v in e.items() if kk not in ("sp", "ty", "exp", "adj", "adj_ty", "m"))
        for a in m_run["arms"]:
            for pos, ids in pat_binds(a["pat"]).items():
                n_ = max_runs(a["body"], set(ids))
                if n_:
                    l3.examined(("run-once", a["sp"], pos), True)
                if n_ > 1:
                    l3.violate(f"run/twice/{pos}", f"the value evaluator runs operand {pos} of a term {n_} times on one path: the outputs (and effects such as `input`) of the first run are repeated", where=a["sp"])
    # the lazy wrapper itself
    lz = facts.hir_fn("jaq_core::filter::lazy")
    if lz is None:
        l3.missing_anchor("filter::lazy")
    else:
        # deferral by what the wrapper does, not by which adapters it uses: it never calls its closure parameter itself (MIR: no
        # `FnOnce::call_once`/`FnMut::call_mut`/`Fn::call` on something derived from the parameter) and hands it to a source that
        # calls it on the first `next` (`once_with`, `from_fn`, `LazyCell`-like), i.e. the parameter flows into another call
        lm = facts.mir_fn("jaq_core::filter::lazy")
        ok = False
        if lm is not None:
            from mirutil import Body as _Body
            lb = _Body(lm)
            der = lb.derived_from([1])
            calls_it = [i for i, t in lb.calls() if re.search(r"core::ops::function::(FnOnce::call_once|FnMut::call_mut|Fn::call)$", t.get("fn") or "") and set(lb.arg_locals(i, 0)) & der]
            handed_on = [i for i, t in lb.calls() if i not in calls_it and set(lb.arg_locals(i)) & der]
            ok = not calls_it and (bool(handed_on) or 0 in der)   # handed to a deferring source, or stored in the iterator that is returned
        l3.examined("lazy", True, {"lazy_calls_its_closure_itself": not ok})
        if not ok:
            l3.violate("lazy", "`lazy` no longer defers the construction of its iterator: it calls its closure parameter itself (or drops it) instead of handing it to a source that calls it on the first `next`", where=lz["sp"])
    rules.append(l3.finish())

    # ---------------- L3.6 the shared input stream hides its size
    l6 = Rule("L3.6", "the iterator through which `input`/`inputs` take values from the shared input stream gives no size hint: otherwise the single-output fast paths "
              "(which pull a stream of exactly one element when a filter is instantiated) would consume an input before its value is demanded", floor=2)
    nexts_ = [j for j in facts.mir("jaq_std") if re.search(r"^<&.*jaq_std::input::RcIter<.*> as core::iter::traits::iterator::Iterator>::next$", j["def"])]
    hints_ = [j for j in facts.mir("jaq_std") if re.search(r"jaq_std::input::RcIter<.*> as core::iter::traits::iterator::Iterator>::size_hint$", j["def"])]
    if not nexts_:
        l6.missing_anchor("impl Iterator for &RcIter")
    else:
        l6.examined("RcIter", True, {"shared_input_iterator_overrides_size_hint": bool(hints_)})
        if hints_:
            l6.violate("rciter/size_hint", "the shared input iterator reports a size hint: with exactly one input left, every pipe or flat-map over `inputs` pulls it when the filter is instantiated, before it is demanded", where=hints_[0]["sp"])
    # the natives: what they return must not be a sized single-element iterator built from a pull at construction
    # (covered by L3.1) nor an adaptor that reports at most one element (`take(1)`, `Option::into_iter`)
    reg_ = native_of_closure = None
    from hirutil import native_registry
    for cdef, (nm, owner, sp_) in native_registry(facts).items():
        if not owner.startswith("jaq_std::input::"):
            continue
        body_ = [h for h in facts.hir("jaq_std") if h["def"] == owner]
        clos = [c_ for h in body_ for c_ in find(h["body"], lambda n: n.get("k") == "Closure" and n.get("def") == cdef)]
        for c_ in clos:
            from hirtab import callees as _callees
            cl_ = _callees(c_)
            sized = [x for x in cl_ if re.search(r"Iterator::take$|core::option::Option::<T>::into_iter$|<core::option::Option<T> as core::iter::traits::collect::IntoIterator>::into_iter$|iter::sources::once::once$|Iterator::next$", x)]
            l6.examined(("native", nm), True, {"native": nm, "sized_single_element_adaptors": sized})
            if sized:
                l6.violate(f"native/{nm}", f"native `{nm}` returns its input through {sized}: an iterator that announces at most one element is pulled by the fast paths when the filter is instantiated", where=c_["sp"])
    rules.append(l6.finish())

    # ---------------- L3.7 no look-ahead on value streams in the evaluation engine
    l7 = Rule("L3.7", "the evaluation engine (trampoline, fold, the evaluators, the core natives, paths) never looks ahead on a stream of values: no `peekable`/`peek`/`next_if` "
              "in jaq-core outside the parser -- peeking evaluates the next output of a filter before the current one has been delivered", floor=100)
    LOOK = re.compile(r"Iterator::peekable$|adapters::peekable::Peekable<.*>::(peek|peek_mut|next_if|next_if_eq)$|Peekable::<I>::(peek|peek_mut|next_if|next_if_eq)$|itertools.*::(peek\w*|multipeek)$")
    nfun = 0
    for j in facts.mir("jaq_core"):
        if j["def"].startswith("jaq_core::load::") or (j.get("root") or "").startswith("jaq_core::load::") or j.get("test"):
            continue
        nfun += 1
        b = Body(j)
        for i_, t_ in b.calls():
            c_ = Body.callee(t_) or ""
            if LOOK.search(c_) or LOOK.search(t_.get("fn") or ""):
                l7.violate(f"lookahead/{j['def'].split('::{closure')[0]}", f"`{j['def']}` looks ahead on a stream (`{(t_.get('fn') or c_).split('::')[-1]}`): the next output is evaluated before the current one is delivered (a prefix consumer such as `first` then runs into errors, divergence or input consumption that lie behind its result)", where=t_["sp"])
        l7.examined(j["def"], False)
    l7.instances = nfun
    l7.nontrivial = {("bodies", nfun)} if nfun else set()
    if nfun < 100:
        l7.missing_anchor(f"bodies of the evaluation engine ({nfun} found)")
    rules.append(l7.finish())

    # ---------------- L3.5 each output reaches the consumer before the next is computed
    l5 = Rule("L3.5", "the command-line writer flushes after every value, so the consumer of the command line obtains output k before output k+1 is computed (shared with C17 F17.3)", floor=2)
    flush_rule(facts, l5)
    rules.append(l5.finish())

    # ---------------- L3.8 the evaluators rebuild contexts alike (labels, bindings): shared with C02 T2.8
    from c02 import rule_ctx_agreement
    rules.append(rule_ctx_agreement(facts, "L3.8").finish())

    # ---------------- L3.9 input streams are not read to their end up front
    l9 = Rule("L3.9", "an input stream (standard input, a reader) is read to its end in one go only where the format needs the whole document (TOML, XML, YAML) or the "
              "user asked for it (`--slurp` of raw input): per crate, the number of `Read::read_to_end` / `io::read_to_string` call sites does not exceed the reviewed ones "
              "(reading standard input completely before evaluating makes `first(inputs)` and every output wait for end of input)", floor=2)
    REVIEWED_READ_ALL = {"jaq_fmts": 2}   # formats::read_string (whole-document formats), formats::read (Raw with --slurp)
    found = collections.Counter()
    where_ = {}
    for crate_, j_ in facts.all_mir():
        if j_.get("test") or j_["def"].startswith("jaq::funs::repl") or (j_.get("root") or "").startswith("jaq::funs::repl"):
            continue
        for i_, t_ in Body(j_).calls():
            if re.search(r"^std::io::Read::(read_to_end|read_to_string)$|^std::io::read_to_string$", t_.get("fn") or ""):
                found[crate_] += 1
                where_.setdefault(crate_, []).append((j_["def"], t_["sp"]))
                l9.examined((j_["def"], t_["sp"]), True, {"fn": j_["def"], "reads_to_end_with": (t_.get("fn") or "").split("::")[-1]})
    for crate_, n_ in sorted(found.items()):
        if n_ > REVIEWED_READ_ALL.get(crate_, 0):
            l9.violate(f"read-all/{crate_}", f"{n_ - REVIEWED_READ_ALL.get(crate_, 0)} new place(s) in crate {crate_} read a stream to its end ({', '.join(d_ for d_, _ in where_[crate_])}): if that stream is standard input, nothing is evaluated or printed before end of input", where=where_[crate_][-1][1])
    rules.append(l9.finish())

    explanation = ("Decided: where streams may be forced at construction time (whole-program call graph, reviewed inventory), the guards of the single-output fast paths (MIR control dependence), "
                   "lazy construction of later operands in the evaluators (typed HIR), flush per output. Not decided: over-forcing inside an iterator's next (a combinator pulling one element too many), "
                   "termination and cost per element.")
    return finish("C03", "other", rules, t0, tier, explanation, ["an iterator adaptor of core does not evaluate its closure before next() is called", "reviewed forcing sites are arguments, not proofs"])
