"""Engine CFG: control-flow and value-flow helpers over the MIR JSON of driver pass P."""
import collections
import re


def op_local(o):
    """Local read by an operand (None for constants)."""
    if not isinstance(o, dict):
        return None
    for k in ("c", "m"):
        if k in o:
            return o[k]["l"]
    return None


def op_place(o):
    for k in ("c", "m"):
        if k in o:
            return o[k]
    return None


def op_const(o):
    return o.get("k") if isinstance(o, dict) else None


def rvalue_reads(r):
    """Locals read by an rvalue (including index locals of places)."""
    out = []

    def place(p):
        out.append(p["l"])
        for e in p.get("pr") or []:
            if isinstance(e, dict) and "i" in e:
                out.append(e["i"])

    def operand(o):
        p = op_place(o)
        if p is not None:
            place(p)

    k = r.get("k")
    if k in ("Use", "Repeat", "Cast"):
        operand(r["o"])
    elif k in ("Ref", "RawPtr", "Discr"):
        place(r["p"])
    elif k == "Bin":
        operand(r["a"])
        operand(r["b"])
    elif k == "Un":
        operand(r["a"])
    elif k == "Agg":
        for o in r["ops"]:
            operand(o)
    return out


class Body:
    def __init__(self, j):
        self.j = j
        self.defpath = j["def"]
        self.bbs = j["bbs"]
        self.n = len(self.bbs)
        self.locals = j["locals"]
        self.argc = j["argc"]
        self._succ = [self._succs(i) for i in range(self.n)]
        self._prune_constant_try()
        self._pred = [[] for _ in range(self.n)]
        for a, ss in enumerate(self._succ):
            for b, kind in ss:
                self._pred[b].append((a, kind))
        self._flow = None

    # ---- CFG
    def _succs(self, i):
        t = self.bbs[i]["t"]
        k = t["k"]
        out = []
        if k == "Goto":
            out.append((t["t"], "goto"))
        elif k == "Switch":
            for v, b in t["ts"]:
                out.append((b, ("case", v)))
            out.append((t["else"], ("case", "else")))
        elif k in ("Call", "Drop", "Assert"):
            if t.get("t") is not None:
                out.append((t["t"], "ret"))
            if t.get("u") is not None:
                out.append((t["u"], "unwind"))
        elif k == "InlineAsm":
            for b in t.get("ts", []):
                out.append((b, "goto"))
        return out

    def _prune_constant_try(self):
        """`Err(e)?` / `None?`: the `?` applied to a freshly built Err/None can only break. Remove the
        infeasible Continue edge so that path rules do not follow it."""
        assigns = collections.defaultdict(list)
        for bb in self.bbs:
            for s in bb["st"]:
                if s.get("k") == "A" and not s["p"].get("pr"):
                    assigns[s["p"]["l"]].append(s["r"])
            t = bb["t"]
            if t["k"] == "Call":
                assigns[t["d"]["l"]].append({"k": "CallResult"})
        for i, bb in enumerate(self.bbs):
            t = bb["t"]
            if t["k"] != "Call" or not (t.get("res") or t.get("fn") or "").endswith("core::ops::try_trait::Try>::branch"):
                continue
            l = op_local(t["args"][0]) if t["args"] else None
            if l is None:
                continue
            rs = assigns.get(l, [])
            # follow one level of plain moves
            if len(rs) == 1 and rs[0].get("k") == "Use" and op_local(rs[0]["o"]) is not None:
                rs = assigns.get(op_local(rs[0]["o"]), [])
            if len(rs) == 1 and rs[0].get("k") == "Agg" and rs[0].get("variant") in ("Err", "None") and rs[0]["ak"] in ("Adt:core::result::Result", "Adt:core::option::Option"):
                nxt = t.get("t")
                while nxt is not None and self.bbs[nxt]["t"]["k"] == "Goto":
                    nxt = self.bbs[nxt]["t"]["t"]
                if nxt is not None and self.bbs[nxt]["t"]["k"] == "Switch":
                    self._succ[nxt] = [(b, k) for b, k in self._succ[nxt] if k != ("case", 0)]

    def succ(self, i, unwind=True):
        return [(b, k) for b, k in self._succ[i] if unwind or k != "unwind"]

    def reachable(self, start=0, removed_edges=(), removed_nodes=(), unwind=True, stop_at=()):
        removed_edges = set(removed_edges)
        removed_nodes = set(removed_nodes)
        seen = set()
        if start in removed_nodes:
            return seen
        st = [start]
        seen.add(start)
        while st:
            a = st.pop()
            if a in stop_at and a != start:
                continue
            for b, k in self.succ(a, unwind):
                if (a, b) in removed_edges or b in removed_nodes or b in seen:
                    continue
                seen.add(b)
                st.append(b)
        return seen

    def edge_dominates(self, edge, node):
        """Every path from entry to `node` uses `edge` (a, b)."""
        return node not in self.reachable(0, removed_edges=[edge])

    def node_dominates(self, a, b):
        if a == b:
            return True
        return b not in self.reachable(0, removed_nodes=[a])

    def always_reaches(self, a, targets, unwind=False):
        """On every path from a that reaches a Return (unwinding ignored unless asked), some block of
        `targets` is passed (must-follow)."""
        targets = set(targets)
        # can we reach a Return from a without passing targets?
        seen = self.reachable(a, removed_nodes=targets - {a}, unwind=unwind)
        for x in seen:
            if self.bbs[x]["t"]["k"] == "Return" and not (x in targets):
                return False
        return True

    # ---- calls
    def calls(self):
        for i, bb in enumerate(self.bbs):
            t = bb["t"]
            if t["k"] == "Call":
                yield i, t

    @staticmethod
    def callee(t, resolved=True):
        if "fn" not in t:
            return None
        return (t.get("res") if resolved else None) or t["fn"]

    def find_calls(self, rx, resolved=True, cleanup=False):
        r = re.compile(rx)
        out = []
        for i, t in self.calls():
            if not cleanup and self.bbs[i].get("cleanup"):
                continue
            c = self.callee(t, resolved)
            d = t.get("fn")
            if (c and r.search(c)) or (d and r.search(d)):
                out.append(i)
        return out

    # ---- value flow (flow-insensitive, generous: any statement or call that reads M and writes L)
    def flow(self):
        if self._flow is not None:
            return self._flow
        f = collections.defaultdict(set)  # src local -> dst locals
        for i, bb in enumerate(self.bbs):
            for s in bb["st"]:
                if s.get("k") == "A":
                    dst = s["p"]["l"]
                    for src in rvalue_reads(s["r"]):
                        f[src].add(dst)
                    # writing through a projection also reads the base (e.g. *_5 = ..): keep dst only
            t = bb["t"]
            if t["k"] == "Call":
                dst = t["d"]["l"]
                for a in t["args"]:
                    l = op_local(a)
                    if l is not None:
                        f[l].add(dst)
                        # a callee may write through a mutable reference argument: args flow into each other
                if "indirect" in t:
                    l = op_local(t["indirect"])
                    if l is not None:
                        f[l].add(dst)
        self._flow = f
        return f

    def derived_from(self, sources):
        """All locals derived (transitively) from the given locals."""
        f = self.flow()
        seen = set(sources)
        st = list(sources)
        while st:
            a = st.pop()
            for b in f.get(a, ()):
                if b not in seen:
                    seen.add(b)
                    st.append(b)
        return seen

    def ref_roots(self, locals_):
        """The given locals plus every local they are a plain copy / move / (re)borrow / cast of (backwards through
        assignments only, never through calls): `&mut top`, `&top` and a reborrow `&*r` of `r = &top` all lead to `top`."""
        seen = set(locals_)
        st = list(locals_)
        while st:
            d = st.pop()
            for bb in self.bbs:
                for s in bb["st"]:
                    if s.get("k") == "A" and s["p"]["l"] == d and not s["p"].get("pr") and s["r"].get("k") in ("Use", "Ref", "RawPtr", "Cast"):
                        for src in rvalue_reads(s["r"]):
                            if src not in seen:
                                seen.add(src)
                                st.append(src)
        return seen

    def call_result_local(self, bb):
        return self.bbs[bb]["t"]["d"]["l"]

    def arg_locals(self, bb, idx=None):
        t = self.bbs[bb]["t"]
        args = t["args"] if idx is None else [t["args"][idx]] if idx < len(t["args"]) else []
        return [op_local(a) for a in args if op_local(a) is not None]

    def switches_on(self, locals_):
        """Switch blocks whose discriminant derives from one of the given locals."""
        d = self.derived_from(locals_)
        out = []
        for i, bb in enumerate(self.bbs):
            t = bb["t"]
            if t["k"] == "Switch":
                l = op_local(t["o"])
                if l in d:
                    out.append(i)
        return out

    def controlled_by(self, node, switch):
        """`switch` decides whether `node` runs: switch dominates node and some out-edge of the switch
        leads to a region from which node is unreachable without re-entering the switch."""
        if not self.node_dominates(switch, node):
            return False
        for b, k in self.succ(switch):
            if node not in self.reachable(b, removed_nodes=[switch]) and b != node:
                return True
        return False

    def try_continue_edge(self, call_bb):
        """For `x = call(..)?`: returns (branch_bb, switch_bb, continue_edge, break_edge) of the `?`
        applied to the result of the call in block call_bb, or None."""
        res = self.call_result_local(call_bb)
        der = self.derived_from([res])
        cands = []
        for i, t in self.calls():
            c = self.callee(t) or ""
            if c.endswith("core::ops::try_trait::Try>::branch") or c.endswith("Try::branch"):
                if any(l in der for l in self.arg_locals(i)) and self.node_dominates(call_bb, i):
                    cands.append((i, t))
        # the `?` applied to this very result first (block numbering says nothing about order once bodies have been inlined),
        # then the one that comes first on every path (it dominates the other candidates)
        cands.sort(key=lambda it: (res not in self.arg_locals(it[0]), sum(1 for j, _ in cands if j != it[0] and self.node_dominates(j, it[0]))))
        for i, t in cands:
            if True:
                if True:
                    # the switch on the discriminant of the ControlFlow result
                    nxt = t.get("t")
                    while nxt is not None and self.bbs[nxt]["t"]["k"] == "Goto":
                        nxt = self.bbs[nxt]["t"]["t"]
                    if nxt is None or self.bbs[nxt]["t"]["k"] != "Switch":
                        continue
                    sw = self.bbs[nxt]["t"]
                    cont = [b for v, b in sw["ts"] if v == 0]
                    brk = [b for v, b in sw["ts"] if v == 1]
                    if cont and brk:
                        return i, nxt, (nxt, cont[0]), (nxt, brk[0])
        return None


def closure_upvar_sources(body, agg_stmt):
    """For an `Agg Closure` statement: list of locals captured (operand order = upvar order)."""
    return [op_local(o) for o in agg_stmt["r"]["ops"]]


def find_closure_aggs(body, closure_def):
    out = []
    for i, bb in enumerate(body.bbs):
        for s in bb["st"]:
            if s.get("k") == "A" and s["r"].get("k") == "Agg" and s["r"]["ak"] == f"Closure:{closure_def}":
                out.append((i, s))
    return out


def result_wrappers(facts, rx, crates=None):
    """First-party functions that are thin wrappers of a call matching `rx`: the call's arguments derive from the
    function's own parameters and the function's result derives from the call's result (one level; e.g. a helper
    `is_exhausted(it) = it.size_hint() == (0, Some(0))`). A test made through such a helper is the same test."""
    out = set()
    for crate, body in facts.all_mir():
        if crates and crate not in crates:
            continue
        argc = body.get("argc")
        if not argc:
            continue
        b = Body(body)
        cs = b.find_calls(rx)
        if not cs:
            continue
        params = b.derived_from(list(range(1, argc + 1)))
        for c in cs:
            if set(b.arg_locals(c)) & params and 0 in b.derived_from([b.call_result_local(c)]):
                out.add(body["def"])
    return out


def norm_def(d):
    """def path without generic arguments (`Loader::<S, P, R>::find` and `Loader::<&'s str, P, R>::find` are one function)"""
    prev = None
    d = d or ""
    while prev != d:
        prev = d
        d = re.sub(r"::<[^<>]*>", "", d)
        d = re.sub(r"<[^<>]*>", "", d) if d.count("<") and not d.startswith("<") else d
    return d


class LocalGraph:
    """Call graph over the polymorphic MIR bodies of the given crates: direct calls by (normalised) def path and the
    construction of a closure counts as a use of the closure's body."""

    def __init__(self, facts, crates):
        self.bodies = {}
        for crate, body in facts.all_mir():
            if crate in crates:
                self.bodies.setdefault(norm_def(body["def"]), []).append(body)
        self._succ = {}

    def uses(self, body):
        """[(block index, target def)] of one body: calls and closure constructions"""
        out = []
        for i, bb in enumerate(body["bbs"]):
            for s in bb["st"]:
                if s.get("k") == "A" and s["r"].get("k") == "Agg" and (s["r"].get("ak") or "").startswith("Closure:"):
                    out.append((i, norm_def(s["r"]["ak"][len("Closure:"):])))
            t = bb["t"]
            if t["k"] == "Call":
                for c in (t.get("res"), t.get("fn")):
                    if c:
                        out.append((i, norm_def(c)))
        return out

    def succ(self, d):
        if d not in self._succ:
            out = set()
            for body in self.bodies.get(d, []):
                out |= {t for _, t in self.uses(body)}
            self._succ[d] = out
        return self._succ[d]

    def reaches(self, d, pred, depth=6):
        """does `d` (a def, first-party or not) satisfy pred or reach a def satisfying pred through first-party bodies?"""
        seen = set()
        st = [(d, 0)]
        while st:
            x, k = st.pop()
            if x in seen:
                continue
            seen.add(x)
            if pred(x):
                return True
            if k < depth and x in self.bodies:
                st.extend((y, k + 1) for y in self.succ(x))
        return False


class FlagGuard:
    """"This code runs only when option X is set": the block is control-dependent on a test of the struct field holding
    the option, in its own function or at every use (call, closure construction) of that function, up to a few levels.
    The field is found by name in the fact base of the struct; functions are found by what they contain."""

    def __init__(self, facts, crate, struct_def, field, skip=lambda body: False):
        adt = [a for a in facts.items(crate)["adts"] if a["def"] == struct_def]
        self.ok = bool(adt) and field in [f["name"] for f in adt[0]["variants"][0]["fields"]]
        self.struct = struct_def
        self.bodies = {}
        if not self.ok:
            return
        self.idx = [f["name"] for f in adt[0]["variants"][0]["fields"]].index(field)
        for c, body in facts.all_mir():
            if c == crate and not body.get("test") and not skip(body):
                self.bodies[body["def"]] = Body(body)
        self._sw = {}

    def switches(self, d):
        if d not in self._sw:
            b = self.bodies[d]
            flag_locals = set()
            for bb in b.bbs:
                for s_ in bb["st"]:
                    if s_.get("k") == "A" and s_["r"].get("k") == "Use":
                        pl = s_["r"]["o"].get("c") or s_["r"]["o"].get("m")
                        if pl and b.locals[pl["l"]]["ty"].endswith(self.struct) and [e for e in (pl.get("pr") or []) if e != "*"] == [{"f": self.idx}]:
                            flag_locals.add(s_["p"]["l"])
            self._sw[d] = b.switches_on(flag_locals) if flag_locals else []
        return self._sw[d]

    def use_sites(self, d):
        out = []
        for cd, cb in self.bodies.items():
            for i, t in cb.calls():
                if (Body.callee(t) or "") == d or (t.get("fn") or "") == d:
                    out.append((cd, i))
            for i, bb in enumerate(cb.bbs):
                for s_ in bb["st"]:
                    if s_.get("k") == "A" and s_["r"].get("k") == "Agg" and s_["r"].get("ak") == "Closure:" + d:
                        out.append((cd, i))
        return out

    def conditional(self, d, block, depth=0, seen=()):
        b = self.bodies[d]
        if any(b.controlled_by(block, sw) for sw in self.switches(d)):
            return True
        if depth >= 4 or d in seen:
            return False
        us = self.use_sites(d)
        return bool(us) and all(self.conditional(cd, i, depth + 1, seen + (d,)) for cd, i in us)

    def tested_somewhere(self):
        return any(self.switches(d) for d in self.bodies)


def _shift(x, dl, db, is_term=False):
    """deep copy of a MIR JSON fragment with locals shifted by dl (and, in terminators, block targets by db)"""
    if isinstance(x, list):
        return [_shift(y, dl, db) for y in x]
    if not isinstance(x, dict):
        return x
    out = {}
    for k, v in x.items():
        if k == "l" and isinstance(v, int):
            out[k] = v + dl
        elif k == "i" and isinstance(v, int) and len(x) == 1:
            out[k] = v + dl          # index projection by a local
        else:
            out[k] = _shift(v, dl, db)
    return out


def _shift_term(t, dl, db):
    out = _shift(t, dl, db)
    for k in ("t", "u", "else"):
        if isinstance(t.get(k), int):
            out[k] = t[k] + db
    if "ts" in t and t["k"] == "Switch":
        out["ts"] = [[v, b + db] for v, b in t["ts"]]
    return out


def inline_calls(facts, body, crates, depth=2, only=lambda d: True, _stack=()):
    """A copy of the MIR body in which every direct call of a first-party function (of the given crates, accepted by
    `only`, not recursive) is replaced by the callee's blocks: arguments are assigned to the callee's parameters, its
    returns assign the destination and jump to the call's continuation. Path rules (dominance, must-follow, value
    flow) then see through private helper functions exactly as if their code stood at the call site."""
    j = {"def": body["def"], "argc": body.get("argc"), "locals": list(body["locals"]), "bbs": [dict(bb) for bb in body["bbs"]],
         "sp": body.get("sp"), "kind": body.get("kind"), "root": body.get("root"), "promoted": body.get("promoted", []), "inlined": []}
    if depth <= 0:
        return j
    by_def = {}
    for c in crates:
        for b in facts.mir(c):
            by_def.setdefault(norm_def(b["def"]), b)
    i = 0
    while i < len(j["bbs"]):
        bb = j["bbs"][i]
        t = bb["t"]
        i += 1
        if t["k"] != "Call" or bb.get("cleanup") or t.get("t") is None:
            continue
        cal = None
        for c in (t.get("res"), t.get("fn")):
            if c and norm_def(c) in by_def and only(norm_def(c)):
                cal = by_def[norm_def(c)]
                break
        if cal is None or norm_def(cal["def"]) in _stack or norm_def(cal["def"]) == norm_def(body["def"]) or len(t["args"]) != (cal.get("argc") or 0):
            continue
        g = inline_calls(facts, cal, crates, depth - 1, only, _stack + (norm_def(body["def"]),))
        dl, db = len(j["locals"]), len(j["bbs"])
        j["locals"] += g["locals"]
        for gb in g["bbs"]:
            nb = {"st": _shift(gb["st"], dl, db), "t": _shift_term(gb["t"], dl, db)}
            if gb.get("cleanup"):
                nb["cleanup"] = True
            if nb["t"]["k"] == "Return":
                nb["st"] = nb["st"] + [{"k": "A", "p": t["d"], "r": {"k": "Use", "o": {"m": {"l": dl}}}, "sp": t.get("sp")}]
                nb["t"] = {"k": "Goto", "t": t["t"], "sp": t.get("sp")}
            elif nb["t"]["k"] == "Resume" and t.get("u") is not None:
                nb["t"] = {"k": "Goto", "t": t["u"], "sp": t.get("sp")}
            j["bbs"].append(nb)
        pre = [{"k": "A", "p": {"l": dl + 1 + k}, "r": {"k": "Use", "o": a}, "sp": t.get("sp")} for k, a in enumerate(t["args"])]
        j["bbs"][i - 1] = {"st": bb["st"] + pre, "t": {"k": "Goto", "t": db, "sp": t.get("sp")}}
        j["inlined"].append(cal["def"])
    return j
