"""C13 — string codecs, offsets, escaping: constant escape tables only (structural clauses)."""
import os
import re
import time

from common import REPO, Rule, finish
from hirtab import ANY, C, T, adt_variants, callees, candidates, lit_value
from hirutil import find, lit_str, strip, walk

ENTITIES = {"<": "&lt;", ">": "&gt;", "&": "&amp;", "'": "&apos;", '"': "&quot;"}


def const_array(facts, rx, crate):
    fs = facts.hir_find(rx, crate)
    if len(fs) != 1:
        return None
    a = strip(fs[0]["body"])
    if a.get("k") != "Array":
        return None
    return [lit_str(strip(x)) for x in a["xs"]]


def native_closures(facts, fn_rx, crate):
    """native name -> closure expr, from tuples ("name", arity, |cv| ...) in the registry function"""
    out = {}
    for f in facts.hir_find(fn_rx, crate):
        for n in find(f["body"], lambda n: n.get("k") == "Tup" and len(n["xs"]) >= 3 and lit_str(strip(n["xs"][0])) is not None):
            out[lit_str(strip(n["xs"][0]))] = n["xs"][2]
    return out



def rule_char_decoder(facts, rid):
    t4 = Rule(rid, "every site that turns a text string into character counts or character positions (length, indices, slicing, split on the empty string, "
              "regex offsets and lengths, explode) gets them from the one lossy UTF-8 decoder of bstr (chars / char_indices / decode_utf8): a site that "
              "counts in another way disagrees with the others on some strings (multi-byte or invalid sequences); the byte-string arms do not decode", floor=8)
    DEC = re.compile(r"^bstr::(ext_slice::ByteSlice::(chars|char_indices)|utf8::(decode|decode_last|decode_lossy))$")

    def decoders(e):
        return sorted({c for c in callees(e) if DEC.match(c)})

    vv = dict(adt_variants(facts, "jaq_json::Val") or [])

    def val_arm(fn_rx, value, what):
        fs = facts.hir_find(fn_rx, "jaq_json")
        if len(fs) != 1:
            t4.missing_anchor(what)
            return None
        ms = [m for m in find(fs[0]["body"], lambda n: n.get("k") == "Match" and n.get("src") == "Normal")]
        ms = [m for m in ms if "jaq_json::Val" in m["scrut_ty"]]
        if not ms:
            t4.missing_anchor(f"match on the value in {what}")
            return None
        cs = [c for c in candidates(ms[0]["arms"], value) if c[1] == "sure"]
        if not cs:
            t4.violate(f"{what}/arm", f"{what}: no arm decides {value}")
            return None
        return ms[0]["arms"][cs[-1][0]]

    if not vv:
        t4.missing_anchor("jaq_json::Val")
    else:
        V = lambda k: C(f"jaq_json::Val::{k}", *([ANY] * vv[k]))
        for what, rx, tval, bval in (("length", r"^jaq_json::funs::<impl jaq_json::Val>::length$", V("TStr"), V("BStr")),
                                     ("indices", r"^jaq_json::funs::<impl jaq_json::Val>::indices$", T(V("TStr"), V("TStr")), T(V("BStr"), V("BStr")))):
            for kind, val, want in (("text", tval, True), ("bytes", bval, False)):
                arm = val_arm(rx, val, what)
                if arm is None:
                    continue
                d = decoders(arm["body"])
                t4.examined((what, kind), True, {"site": f"{what} on {kind} strings", "decoders": d})
                if want and not d:
                    t4.violate(f"{what}/{kind}", f"`{what}` on text strings no longer counts with bstr's character decoder (calls: {sorted(set(callees(arm['body'])))[:6]}): it disagrees with slicing/indices/match offsets on some strings", where=arm["sp"])
                if not want and d:
                    t4.violate(f"{what}/{kind}", f"`{what}` on byte strings decodes characters ({d}): positions in byte strings are bytes", where=arm["sp"])
    for what, rx, crate in (("split on the empty separator", r"^jaq_json::split$", "jaq_json"),
                            ("regex byte->character offsets", r"^jaq_std::regex::ByteChar::<.*>::new$", "jaq_std"),
                            ("regex match length", r"^jaq_std::regex::Match::<.*>::new$", "jaq_std"),
                            ("explode", r"^<jaq_std::Explode<.*> as core::iter::traits::iterator::Iterator>::next$", "jaq_std")):
        fs = facts.hir_find(rx, crate)
        if len(fs) != 1:
            t4.missing_anchor(what)
            continue
        d = decoders(fs[0]["body"])
        t4.examined(what, True, {"site": what, "decoders": d})
        if not d:
            t4.violate(f"site/{what}", f"{what} no longer uses bstr's character decoder: its positions disagree with `length` and slicing on some strings", where=fs[0]["sp"])
    # the slicing helper of text strings: whatever function the TStr arm of `range` passes on, it decodes; that of BStr does not
    for kind, k, want in (("text", "TStr", True), ("bytes", "BStr", False)):
        arm = val_arm(r"^<jaq_json::Val as jaq_core::val::ValT>::range$", C(f"jaq_json::Val::{k}", *([ANY] * vv.get(k, 1))), "range") if vv else None
        if arm is None:
            continue
        helpers = sorted({n["path"]["def"] for n in find(arm["body"], lambda n: n.get("k") == "Path" and (n["path"].get("dk") or "") == "Fn" and (n["path"].get("def") or "").startswith("jaq_json::"))})
        ds = []
        for h in helpers:
            hf = facts.hir_fn(h)
            if hf is not None:
                ds += decoders(hf["body"])
        t4.examined(("range", kind), True, {"site": f"slicing {kind} strings", "helpers": helpers, "decoders": sorted(set(ds))})
        if want and not ds:
            t4.violate(f"range/{kind}", f"slicing a text string positions with {helpers}, none of which decodes characters", where=arm["sp"])
        if not want and ds:
            t4.violate(f"range/{kind}", f"slicing a byte string positions with a character decoder ({helpers})", where=arm["sp"])
    return t4

def run(facts, tier):
    t0 = time.time()
    rules = []

    # ---------------- T13.1 HTML entity table
    t1 = Rule("T13.1", "HTML escaping: the pattern and replacement tables have equal length, are pairwise the HTML entity table for < > & ' \", cover all five metacharacters, and unescaping uses the same two tables swapped", floor=8)
    pats = const_array(facts, r"^jaq_std::format::HTML_PATS$", "jaq_std")
    reps = const_array(facts, r"^jaq_std::format::HTML_REPS$", "jaq_std")
    if pats is None or reps is None:
        t1.missing_anchor("HTML_PATS / HTML_REPS")
    else:
        if len(pats) != len(reps):
            t1.violate("length", f"HTML tables differ in length ({len(pats)} patterns, {len(reps)} replacements): every later pair is shifted")
        for p, r in zip(pats, reps):
            ok = ENTITIES.get(p) == r
            t1.examined(p, True, {"char": p, "entity": r})
            if not ok:
                t1.violate(f"pair/{p}", f"HTML escaping maps `{p}` to `{r}`; the entity table says `{ENTITIES.get(p)}`")
        missing = set(ENTITIES) - set(pats)
        if missing:
            t1.violate("missing", f"HTML escaping does not escape {sorted(missing)}")
        nat = native_closures(facts, r"^jaq_std::format$", "jaq_std")
        for name, want in (("escape_html", ("HTML_PATS", "HTML_REPS")), ("unescape_html", ("HTML_REPS", "HTML_PATS"))):
            c = nat.get(name)
            got = None
            if c is not None:
                for call in find(c, lambda n: n.get("k") == "Call" and (strip(n["f"]).get("path") or {}).get("def") == "jaq_std::replace"):
                    got = tuple(((strip(a).get("path") or {}).get("def") or "?").split("::")[-1] for a in call["args"][1:3])
            t1.examined(name, True, {"native": name, "tables": got})
            if got != want:
                t1.violate(f"native/{name}", f"`{name}` calls replace with tables {got}, expected {want}")
        rp = facts.hir_fn("jaq_std::replace")
        if rp is None:
            t1.missing_anchor("jaq_std::replace")
        else:
            cl = callees(rp["body"])
            ok = any(c.endswith("AhoCorasick::new") for c in cl) and any(c.endswith("replace_all_bytes") for c in cl)
            ids = [b["id"] for p in rp["params"] for b in find(p, lambda n: n.get("k") == "Bind")]
            order = []
            for call in find(rp["body"], lambda n: n.get("k") in ("Call", "MethodCall")):
                for a in call.get("args", []):
                    x = strip(a)
                    if x.get("k") == "Path" and x["path"].get("id") in ids:
                        order.append(ids.index(x["path"]["id"]))
            t1.examined("replace", True, {"replace_uses": "aho-corasick leftmost replace", "parameter_use_order": order})
            if not ok or order != [1, 0, 2]:
                t1.violate("replace", f"`replace` no longer builds the automaton from its patterns and replaces with its replacements in that order (uses {order})", where=rp["sp"])
    rules.append(t1.finish())

    # ---------------- T13.2 @sh
    t2 = Rule("T13.2", "shell quoting: the only replacement is ' -> '\\'' and @sh wraps each string in single quotes", floor=2)
    nat = native_closures(facts, r"^jaq_std::base_run$|^jaq_std::base$|^jaq_std::\w+$", "jaq_std")
    c = nat.get("escape_sh")
    if c is None:
        t2.missing_anchor("native escape_sh")
    else:
        reps_ = [n for n in find(c, lambda n: n.get("k") == "MethodCall" and n["m"]["name"] == "replace")]
        got = None
        if len(reps_) == 1:
            a = [strip(x) for x in reps_[0]["args"]]
            got = tuple(bytes(x["lit"]["bytes"]) if x.get("k") == "Lit" and "bytes" in x["lit"] else None for x in a)
        t2.examined("escape_sh", True, {"replacement": [g.decode() if g else None for g in got] if got else None})
        if got != (b"'", b"'\\''"):
            t2.violate("escape_sh", f"escape_sh replaces {got}; a POSIX shell needs exactly ' -> '\\'' inside single quotes", where=c["sp"])
    defs = open(os.path.join(REPO, "jaq-std", "src", "defs.jq")).read()
    m = re.search(r"^def @sh:(.*)$", defs, re.M)
    ok = bool(m) and "\"'\\(escape_sh)'\"" in m.group(1)
    t2.examined("@sh", True, {"@sh_wraps_in_single_quotes": ok})
    if not ok:
        t2.violate("@sh", "the definition of @sh no longer wraps the escaped string in single quotes")
    rules.append(t2.finish())

    # ---------------- T13.3 bindings of the format filters
    t3 = Rule("T13.3", "format filters are bound to their codecs: @csv/tocsv and @tsv/totsv to the checked row writers, @html/@htmld/@uri/@urid/@base64/@base64d to the matching encode/decode natives (same base64 engine both ways), @json to tojson", floor=12)
    wn = native_closures(facts, r"^jaq_fmts::write::funs::funs$", "jaq_fmts")
    for name, want in (("@csv", "write_csv"), ("tocsv", "write_csv"), ("@tsv", "write_tsv"), ("totsv", "write_tsv")):
        c = wn.get(name)
        meths = sorted({x.split("::")[-1] for x in callees(c) if re.search(r"tabular::Row::write_(csv|tsv)$", x)}) if c is not None else None
        t3.examined(name, True, {"filter": name, "writer": meths})
        if meths != [want]:
            t3.violate(f"bind/{name}", f"`{name}` is bound to {meths}, expected [{want}]")
    BIND = {"@html": "escape_html", "@htmld": "unescape_html", "@uri": "encode_uri", "@urid": "decode_uri", "@base64": "encode_base64", "@base64d": "decode_base64"}
    for name, want in BIND.items():
        m = re.search(rf"^def {re.escape(name)}\s*:\s*(.*);\s*$", defs, re.M)
        ok = bool(m) and re.fullmatch(rf"tostring\s*\|\s*{want}", m.group(1).strip()) is not None
        t3.examined(name, True, {"filter": name, "definition": m.group(1).strip() if m else None})
        if not ok:
            t3.violate(f"def/{name}", f"`{name}` is defined as `{m.group(1).strip() if m else None}`, expected `tostring | {want}`")
    jd = open(os.path.join(REPO, "jaq-json", "src", "defs.jq")).read()
    ok = re.search(r"^def @json:\s*tojson;", jd, re.M) is not None
    t3.examined("@json", True)
    if not ok:
        t3.violate("def/@json", "@json is no longer tojson")
    fmt = native_closures(facts, r"^jaq_std::format$", "jaq_std")
    for name, want in (("encode_uri", "urlencoding::enc::encode_binary"), ("decode_uri", "urlencoding::dec::decode_binary")):
        c = fmt.get(name)
        cl = callees(c) if c is not None else []
        ok = any(x.endswith(want.split("::")[-1]) and "urlencoding" in x for x in cl)
        t3.examined(name, True, {"native": name, "codec": [x for x in cl if "urlencoding" in x]})
        if not ok:
            t3.violate(f"codec/{name}", f"`{name}` does not call {want}")
    engines = {}
    for name in ("encode_base64", "decode_base64"):
        c = fmt.get(name)
        eng = sorted({(n["path"].get("def") or "") for n in find(c, lambda n: n.get("k") == "Path" and "base64::engine" in (n["path"].get("def") or ""))}) if c is not None else None
        engines[name] = eng
        t3.examined(name, True, {"native": name, "engine": eng})
    if engines.get("encode_base64") != engines.get("decode_base64") or not engines.get("encode_base64"):
        t3.violate("codec/base64", f"base64 encoding and decoding use different engines: {engines}")
    rules.append(t3.finish())


    # ---------------- T13.4 one character decoder for positions in text strings
    rules.append(rule_char_decoder(facts, "T13.4").finish())

    explanation = ("Inversion of codecs for all strings, character offsets of matches and safety against real consumers are value-level: not decided. Decided: the constant escape tables and the bindings of the "
                   "format filters to their codecs, extracted from the typed HIR (and the one-line jq definitions).")
    return finish("C13", "other", rules, t0, tier, explanation, ["aho-corasick replaces leftmost non-overlapping matches", "urlencoding and base64 crates implement their codecs"])
