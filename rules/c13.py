"""C13 — string codecs, offsets, escaping: constant escape tables only (structural clauses)."""
import os
import re
import time

from common import REPO, Rule, finish
from hirtab import ANY, C, T, adt_variants, callees, callees_inlined, candidates, lit_value
from hirutil import callee, find, lit_str, strip, walk

ENTITIES = {"<": "&lt;", ">": "&gt;", "&": "&amp;", "'": "&apos;", '"': "&quot;"}


def const_array(facts, rx, crate):
    fs = facts.hir_find(rx, crate)
    if len(fs) != 1:
        return None
    a = strip(fs[0]["body"])
    if a.get("k") != "Array":
        return None
    return [lit_str(strip(x)) for x in a["xs"]]


def native_closures(facts, fn_rx, crate):
    """native name -> closure expr, from tuples ("name", arity, |cv| ...) in the registry function"""
    out = {}
    for f in facts.hir_find(fn_rx, crate):
        for n in find(f["body"], lambda n: n.get("k") == "Tup" and len(n["xs"]) >= 3 and lit_str(strip(n["xs"][0])) is not None):
            out[lit_str(strip(n["xs"][0]))] = n["xs"][2]
    return out




def str_arrays(facts, crate):
    """constant arrays of string literals of a crate: def -> [strings]"""
    out = {}
    for f in facts.hir(crate):
        if str(f.get("kind", "")).startswith("Const") or str(f.get("kind", "")).startswith("Static"):
            a = strip(f["body"])
            if a.get("k") == "Array" and a["xs"] and all(lit_str(strip(x)) is not None for x in a["xs"]):
                out[f["def"]] = [lit_str(strip(x)) for x in a["xs"]]
    return out


def rule_html_tables(facts):
    """The tables are found by their content and the natives by their registered names; how the tables are used
    (which one is searched, which one is emitted) is read off the calls, following first-party helpers."""
    t1 = Rule("T13.1", "HTML escaping: the table of metacharacters and the table of entities have equal length and are pairwise the HTML entity table for < > & ' \" "
              "(all five covered); escaping searches the characters and emits the entities, unescaping searches the entities and emits the characters, and neither "
              "applies the pairs one after the other (a second pass would decode `&amp;lt;` twice)", floor=7)
    arrays = str_arrays(facts, "jaq_std")
    CH = [d for d, xs in arrays.items() if set(xs) == set(ENTITIES)]
    EN = [d for d, xs in arrays.items() if set(xs) == set(ENTITIES.values())]
    if len(CH) != 1 or len(EN) != 1:
        metas = [d for d, xs in arrays.items() if set(xs) & set(ENTITIES) and set(xs) <= set(ENTITIES) | {"`", "="}]
        if len(metas) == 1 and len(EN) <= 1:
            t1.violate("missing", f"HTML escaping does not escape {sorted(set(ENTITIES) - set(arrays[metas[0]]))}", where=None)
        else:
            t1.missing_anchor(f"the table of the five HTML metacharacters ({len(CH)} found) and the table of their entities ({len(EN)} found)")
        return t1
    ch, en = arrays[CH[0]], arrays[EN[0]]
    if len(ch) != len(en):
        t1.violate("length", f"HTML tables differ in length ({len(ch)} characters, {len(en)} entities): every later pair is shifted")
    for p, r in zip(ch, en):
        t1.examined(p, True, {"char": p, "entity": r})
        if ENTITIES.get(p) != r:
            t1.violate(f"pair/{p}", f"HTML escaping maps `{p}` to `{r}`; the entity table says `{ENTITIES.get(p)}`")
    TAB = {CH[0]: "characters", EN[0]: "entities"}
    nat = native_closures(facts, r"^jaq_std::format$", "jaq_std")

    SEARCH_CALL = re.compile(r"aho_corasick::.*::(new|new_auto_configured|build)$|AhoCorasickBuilder")
    SEARCH_METH = {"position", "rposition", "find", "any", "contains", "find_map", "starts_with", "binary_search"}
    EMIT_METH = {"replace_all_bytes", "replace_all", "replace_all_with", "replace_all_with_bytes"}
    SEQ_REPLACE = re.compile(r"(bstr::ext_slice::ByteSlice|bstr::ext_vec::ByteVec|core::str::<impl str>|alloc::str::<impl str>)::(replace|replacen|replace_with|replace_range)$")

    def analyse(root):
        roles = {"searched": set(), "emitted": set(), "sequential": []}

        def table_of(e, env):
            e = strip(e)
            while isinstance(e, dict) and e.get("k") in ("MethodCall",) and e["m"]["name"] in ("iter", "as_slice", "as_ref", "into_iter", "to_vec", "clone", "copied", "cloned", "rev"):
                e = strip(e["recv"])
            if isinstance(e, dict) and e.get("k") == "Path":
                d = e["path"].get("def")
                if d in TAB:
                    return TAB[d]
                return env.get(e["path"].get("id"))
            return None

        def visit(expr, env, depth):
            def f(n, d):
                k = n.get("k")
                if k == "Index":
                    t = table_of(n.get("base") or n.get("e") or {}, env)
                    if t:
                        roles["emitted"].add(t)
                if k in ("Call", "MethodCall"):
                    c = callee(n) or ""
                    args = ([n["recv"]] if k == "MethodCall" and "recv" in n else []) + n.get("args", [])
                    tabs = [table_of(a, env) for a in args]
                    if SEARCH_CALL.search(c):
                        roles["searched"] |= {t for t in tabs if t}
                    elif k == "MethodCall" and n["m"]["name"] in EMIT_METH:
                        roles["emitted"] |= {t for t in tabs[1:] if t}
                    elif k == "MethodCall" and n["m"]["name"] in SEARCH_METH and tabs and tabs[0]:
                        roles["searched"].add(tabs[0])
                    elif SEQ_REPLACE.search(c):
                        roles["sequential"].append(n["sp"])
                    elif k == "MethodCall" and n["m"]["name"] in ("zip", "fold", "for_each", "try_fold") and any(tabs):
                        roles.setdefault("iterated", set()).update(t for t in tabs if t)
                    if depth > 0 and c.startswith("jaq_std::"):
                        fn = facts.hir_fn(c)
                        if fn is not None and any(tabs) or (depth > 0 and c.startswith("jaq_std::") and facts.hir_fn(c) is not None and c not in seen_fn):
                            fn = facts.hir_fn(c)
                            seen_fn.add(c)
                            pids = [[b["id"] for b in find(p_, lambda x: x.get("k") == "Bind")] for p_ in fn["params"]]
                            env2 = {}
                            call_args = n.get("args", []) if k == "Call" else args
                            for ids, a in zip(pids, call_args):
                                t = table_of(a, env)
                                if t and ids:
                                    env2[ids[0]] = t
                            visit(fn["body"], env2, depth - 1)
                if k == "Path" and (n["path"].get("dk") or "") == "Fn" and (n["path"].get("def") or "").startswith("jaq_std::") and depth > 0 and n["path"]["def"] not in seen_fn:
                    fn = facts.hir_fn(n["path"]["def"])   # a function passed by name (e.g. `map_utf8_str(escape_html)`)
                    if fn is not None:
                        seen_fn.add(n["path"]["def"])
                        visit(fn["body"], {}, depth - 1)
            walk(expr, f)
        seen_fn = set()
        visit(root, {}, 3)
        return roles

    for name, want_s, want_e in (("escape_html", "characters", "entities"), ("unescape_html", "entities", "characters")):
        c = nat.get(name)
        if c is None:
            t1.missing_anchor(f"native {name}")
            continue
        r = analyse(c)
        t1.examined(name, True, {"native": name, "searches": sorted(r["searched"]), "emits": sorted(r["emitted"]), "per_pair_replacements": len(r["sequential"])})
        if r["sequential"] and (r.get("iterated") or not r["searched"]):
            t1.violate(f"native/{name}/sequential", f"`{name}` applies the table pair by pair (a replacement per pair): text produced by one pair is rewritten by a later one (`&amp;lt;` would decode to `<`)", where=r["sequential"][0])
        if r["searched"] and r["searched"] != {want_s}:
            t1.violate(f"native/{name}", f"`{name}` searches for the {sorted(r['searched'])} (expected the {want_s}): the tables are used the wrong way round", where=c["sp"])
        if r["emitted"] and r["emitted"] != {want_e}:
            t1.violate(f"native/{name}/emit", f"`{name}` emits the {sorted(r['emitted'])} (expected the {want_e}): the tables are used the wrong way round", where=c["sp"])
        if not r["searched"] and not r["emitted"] and not r["sequential"]:
            t1.notes.append(f"{name}: how the tables are used was not recognised (no verdict on the direction)")
    return t1

def rule_char_decoder(facts, rid):
    t4 = Rule(rid, "every site that turns a text string into character counts or character positions (length, indices, slicing, split on the empty string, "
              "regex offsets and lengths, explode) gets them from the one lossy UTF-8 decoder of bstr (chars / char_indices / decode_utf8): a site that "
              "counts in another way disagrees with the others on some strings (multi-byte or invalid sequences); the byte-string arms do not decode", floor=8)
    DEC = re.compile(r"^bstr::(ext_slice::ByteSlice::(chars|char_indices)|utf8::(decode|decode_last|decode_lossy))$")

    def decoders(e):
        return sorted({c for c in callees(e) if DEC.match(c)})

    vv = dict(adt_variants(facts, "jaq_json::Val") or [])

    def val_arm(fn_rx, value, what):
        fs = facts.hir_find(fn_rx, "jaq_json")
        if len(fs) != 1:
            t4.missing_anchor(what)
            return None
        ms = [m for m in find(fs[0]["body"], lambda n: n.get("k") == "Match" and n.get("src") == "Normal")]
        ms = [m for m in ms if "jaq_json::Val" in m["scrut_ty"]]
        if not ms:
            t4.missing_anchor(f"match on the value in {what}")
            return None
        cs = [c for c in candidates(ms[0]["arms"], value) if c[1] == "sure"]
        if not cs:
            t4.violate(f"{what}/arm", f"{what}: no arm decides {value}")
            return None
        return ms[0]["arms"][cs[-1][0]]

    if not vv:
        t4.missing_anchor("jaq_json::Val")
    else:
        V = lambda k: C(f"jaq_json::Val::{k}", *([ANY] * vv[k]))
        for what, rx, tval, bval in (("length", r"^jaq_json::funs::<impl jaq_json::Val>::length$", V("TStr"), V("BStr")),
                                     ("indices", r"^jaq_json::funs::<impl jaq_json::Val>::indices$", T(V("TStr"), V("TStr")), T(V("BStr"), V("BStr")))):
            for kind, val, want in (("text", tval, True), ("bytes", bval, False)):
                arm = val_arm(rx, val, what)
                if arm is None:
                    continue
                d = decoders(arm["body"])
                t4.examined((what, kind), True, {"site": f"{what} on {kind} strings", "decoders": d})
                if want and not d:
                    t4.violate(f"{what}/{kind}", f"`{what}` on text strings no longer counts with bstr's character decoder (calls: {sorted(set(callees(arm['body'])))[:6]}): it disagrees with slicing/indices/match offsets on some strings", where=arm["sp"])
                if not want and d:
                    t4.violate(f"{what}/{kind}", f"`{what}` on byte strings decodes characters ({d}): positions in byte strings are bytes", where=arm["sp"])
    for what, rx, crate in (("split on the empty separator", r"^jaq_json::split$", "jaq_json"),
                            ("regex byte->character offsets", r"^jaq_std::regex::ByteChar::<.*>::new$", "jaq_std"),
                            ("regex match length", r"^jaq_std::regex::Match::<.*>::new$", "jaq_std"),
                            ("explode", r"^<jaq_std::Explode<.*> as core::iter::traits::iterator::Iterator>::next$", "jaq_std")):
        fs = facts.hir_find(rx, crate)
        if len(fs) != 1:
            t4.missing_anchor(what)
            continue
        d = decoders(fs[0]["body"])
        t4.examined(what, True, {"site": what, "decoders": d})
        if not d:
            t4.violate(f"site/{what}", f"{what} no longer uses bstr's character decoder: its positions disagree with `length` and slicing on some strings", where=fs[0]["sp"])
    # the slicing helper of text strings: whatever function the TStr arm of `range` passes on, it decodes; that of BStr does not
    for kind, k, want in (("text", "TStr", True), ("bytes", "BStr", False)):
        arm = val_arm(r"^<jaq_json::Val as jaq_core::val::ValT>::range$", C(f"jaq_json::Val::{k}", *([ANY] * vv.get(k, 1))), "range") if vv else None
        if arm is None:
            continue
        helpers = sorted({n["path"]["def"] for n in find(arm["body"], lambda n: n.get("k") == "Path" and (n["path"].get("dk") or "") == "Fn" and (n["path"].get("def") or "").startswith("jaq_json::"))})
        ds = []
        for h in helpers:
            hf = facts.hir_fn(h)
            if hf is not None:
                # the decoder may sit in a helper of the helper (e.g. the closure that turns one bound into a byte offset, made a function)
                ds += sorted({c for c in callees_inlined(facts, hf["body"], 2) if DEC.match(c)})
        t4.examined(("range", kind), True, {"site": f"slicing {kind} strings", "helpers": helpers, "decoders": sorted(set(ds))})
        if want and not ds:
            t4.violate(f"range/{kind}", f"slicing a text string positions with {helpers}, none of which decodes characters", where=arm["sp"])
        if not want and ds:
            t4.violate(f"range/{kind}", f"slicing a byte string positions with a character decoder ({helpers})", where=arm["sp"])
    # a decoded character says nothing about how many bytes it stood for (an invalid byte decodes to U+FFFD, 3 bytes wide): byte offsets
    # come from the decoder (`char_indices`, the size returned by `decode_utf8`), never from the widths of the decoded characters
    groups = {}
    for crate in ("jaq_json", "jaq_std"):
        for mb in facts.mir(crate):
            if mb.get("test"):
                continue
            g_ = groups.setdefault((crate, mb["def"].split("::{closure")[0]), {"dec": [], "width": []})
            for bb_ in mb["bbs"]:
                t_ = bb_["t"]
                if t_["k"] != "Call":
                    continue
                names = [t_.get("fn") or "", t_.get("res") or ""] + [((a_.get("k") or {}).get("fn") or "") for a_ in t_.get("args", []) if isinstance(a_, dict) and isinstance(a_.get("k"), dict)]
                for nm in names:
                    if DEC.match(nm):
                        g_["dec"].append(nm)
                    if re.search(r"core::char::methods::<impl char>::len_utf8$", nm):
                        g_["width"].append(t_["sp"])
    nd = 0
    for (crate, fn_), g_ in sorted(groups.items()):
        if not g_["dec"]:
            continue
        nd += 1
        t4.examined(("decoded-width", fn_), True, {"fn": fn_, "decodes_with": sorted(set(g_["dec"])), "uses_width_of_decoded_chars": bool(g_["width"])})
        if g_["width"]:
            t4.violate(f"decoded-width/{fn_}", f"`{fn_}` decodes a string lossily and computes byte offsets from `char::len_utf8` of the decoded characters: wrong for every invalid byte (U+FFFD is 3 bytes wide, the byte it replaces 1)", where=g_["width"][0])
    return t4

def run(facts, tier):
    t0 = time.time()
    rules = []

    # ---------------- T13.1 HTML entity table
    rules.append(rule_html_tables(facts).finish())

    # ---------------- T13.2 @sh
    t2 = Rule("T13.2", "shell quoting: the only replacement is ' -> '\\'' and @sh wraps each string in single quotes", floor=2)
    nat = native_closures(facts, r"^jaq_std::base_run$|^jaq_std::base$|^jaq_std::\w+$", "jaq_std")
    c = nat.get("escape_sh")
    if c is None:
        t2.missing_anchor("native escape_sh")
    else:
        reps_ = [n for n in find(c, lambda n: n.get("k") == "MethodCall" and n["m"]["name"] == "replace")]
        got = None
        if len(reps_) == 1:
            a = [strip(x) for x in reps_[0]["args"]]
            got = tuple(bytes(x["lit"]["bytes"]) if x.get("k") == "Lit" and "bytes" in x["lit"] else None for x in a)
        t2.examined("escape_sh", True, {"replacement": [g.decode() if g else None for g in got] if got else None})
        if got != (b"'", b"'\\''"):
            t2.violate("escape_sh", f"escape_sh replaces {got}; a POSIX shell needs exactly ' -> '\\'' inside single quotes", where=c["sp"])
    defs = open(os.path.join(REPO, "jaq-std", "src", "defs.jq")).read()
    m = re.search(r"^def @sh:(.*)$", defs, re.M)
    ok = bool(m) and "\"'\\(escape_sh)'\"" in m.group(1)
    t2.examined("@sh", True, {"@sh_wraps_in_single_quotes": ok})
    if not ok:
        t2.violate("@sh", "the definition of @sh no longer wraps the escaped string in single quotes")
    rules.append(t2.finish())

    # ---------------- T13.3 bindings of the format filters
    t3 = Rule("T13.3", "format filters are bound to their codecs: @csv/tocsv and @tsv/totsv to the checked row writers, @html/@htmld/@uri/@urid/@base64/@base64d to the matching encode/decode natives (same base64 engine both ways), @json to tojson", floor=12)
    wn = native_closures(facts, r"^jaq_fmts::write::funs::funs$", "jaq_fmts")
    for name, want in (("@csv", "write_csv"), ("tocsv", "write_csv"), ("@tsv", "write_tsv"), ("totsv", "write_tsv")):
        c = wn.get(name)
        meths = sorted({x.split("::")[-1] for x in callees(c) if re.search(r"tabular::Row::write_(csv|tsv)$", x)}) if c is not None else None
        t3.examined(name, True, {"filter": name, "writer": meths})
        if meths != [want]:
            t3.violate(f"bind/{name}", f"`{name}` is bound to {meths}, expected [{want}]")
    BIND = {"@html": "escape_html", "@htmld": "unescape_html", "@uri": "encode_uri", "@urid": "decode_uri", "@base64": "encode_base64", "@base64d": "decode_base64"}
    for name, want in BIND.items():
        m = re.search(rf"^def {re.escape(name)}\s*:\s*(.*);\s*$", defs, re.M)
        ok = bool(m) and re.fullmatch(rf"tostring\s*\|\s*{want}", m.group(1).strip()) is not None
        t3.examined(name, True, {"filter": name, "definition": m.group(1).strip() if m else None})
        if not ok:
            t3.violate(f"def/{name}", f"`{name}` is defined as `{m.group(1).strip() if m else None}`, expected `tostring | {want}`")
    jd = open(os.path.join(REPO, "jaq-json", "src", "defs.jq")).read()
    ok = re.search(r"^def @json:\s*tojson;", jd, re.M) is not None
    t3.examined("@json", True)
    if not ok:
        t3.violate("def/@json", "@json is no longer tojson")
    fmt = native_closures(facts, r"^jaq_std::format$", "jaq_std")
    for name, want in (("encode_uri", "urlencoding::enc::encode_binary"), ("decode_uri", "urlencoding::dec::decode_binary")):
        c = fmt.get(name)
        cl = callees(c) if c is not None else []
        ok = any(x.endswith(want.split("::")[-1]) and "urlencoding" in x for x in cl)
        t3.examined(name, True, {"native": name, "codec": [x for x in cl if "urlencoding" in x]})
        if not ok:
            t3.violate(f"codec/{name}", f"`{name}` does not call {want}")
    engines = {}
    for name in ("encode_base64", "decode_base64"):
        c = fmt.get(name)
        eng = sorted({(n["path"].get("def") or "") for n in find(c, lambda n: n.get("k") == "Path" and "base64::engine" in (n["path"].get("def") or ""))}) if c is not None else None
        engines[name] = eng
        t3.examined(name, True, {"native": name, "engine": eng})
    if engines.get("encode_base64") != engines.get("decode_base64") or not engines.get("encode_base64"):
        t3.violate("codec/base64", f"base64 encoding and decoding use different engines: {engines}")
    rules.append(t3.finish())


    # ---------------- T13.4 one character decoder for positions in text strings
    rules.append(rule_char_decoder(facts, "T13.4").finish())

    # ---------------- T13.5 @json writes strings as bytes (shared with C07 T7.6)
    from c07 import rule_byte_writers
    rules.append(rule_byte_writers(facts, "T13.5").finish())

    explanation = ("Inversion of codecs for all strings, character offsets of matches and safety against real consumers are value-level: not decided. Decided: the constant escape tables and the bindings of the "
                   "format filters to their codecs, extracted from the typed HIR (and the one-line jq definitions).")
    return finish("C13", "other", rules, t0, tier, explanation, ["aho-corasick replaces leftmost non-overlapping matches", "urlencoding and base64 crates implement their codecs"])
