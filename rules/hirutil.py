"""Helpers over the HIR JSON of driver pass H."""


def walk(e, f, depth=0):
    """Pre-order walk over an expression/pattern tree; f(node, closure_depth)."""
    if isinstance(e, dict):
        if "k" in e:
            f(e, depth)
        d = depth + 1 if e.get("k") == "Closure" else depth
        for k, v in e.items():
            if k in ("sp", "ty", "exp", "adj", "adj_ty"):
                continue
            walk(v, f, d)
    elif isinstance(e, list):
        for x in e:
            walk(x, f, depth)


def find(e, pred):
    out = []
    walk(e, lambda n, d: out.append(n) if pred(n) else None)
    return out


def callee(e):
    """Resolved callee path of a Call/MethodCall node (impl method if resolvable)."""
    if e.get("k") == "MethodCall":
        m = e["m"]
        return m.get("res") or m.get("def") or m.get("name")
    if e.get("k") == "Call":
        f = e["f"]
        if f.get("k") == "Path":
            p = f["path"]
            return p.get("res") or p.get("def") or p.get("local") or p.get("selfctor")
    return None


def callee_decl(e):
    """Callee as written (trait method, not the impl)."""
    if e.get("k") == "MethodCall":
        return e["m"].get("def") or e["m"].get("name")
    if e.get("k") == "Call":
        f = e["f"]
        if f.get("k") == "Path":
            p = f["path"]
            return p.get("def") or p.get("local") or p.get("selfctor")
    return None


def lit_str(e):
    if isinstance(e, dict) and e.get("k") == "Lit" and "str" in e["lit"]:
        return e["lit"]["str"]
    return None


def strip(e):
    """Strip transparent wrappers (blocks with only a tail expression, references, uses)."""
    while isinstance(e, dict):
        k = e.get("k")
        if k == "Block" and not e["stmts"] and e.get("expr") is not None:
            e = e["expr"]
        elif k in ("AddrOf", "Use") :
            e = e["e"]
        else:
            break
    return e


def native_registry(facts):
    """Map closure def path -> native filter name, from tuples ("name", arity, |cv| ...) in
    first-party code (the way every native filter of jaq is registered)."""
    reg = {}
    for crate, body in facts.all_hir():
        def visit(n, d, body=body, crate=crate):
            if n.get("k") == "Tup" and len(n["xs"]) >= 3:
                name = lit_str(strip(n["xs"][0]))
                if name is None:
                    return
                for x in n["xs"][2:]:
                    x = strip(x)
                    if x.get("k") == "Closure":
                        reg[x["def"]] = (name, body["def"], x["sp"])
        walk(body["body"], visit)
    return reg
