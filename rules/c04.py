"""C04 — tail-recursive definitions run in constant stack and memory: the decision tables that implement
tail-call optimisation and the two growth guards (structural clauses)."""
import re
import time

from c15 import shapes
from common import Rule, finish
from hirtab import ANY, C, L, T, adt_variants, callees, candidates, top_match
from hirutil import find, strip, walk
from mirutil import Body, op_local, result_wrappers

PT = "jaq_core::load::parse::Term"
CT = "jaq_core::compile::CallType"


def local_id(e):
    e = strip(e)
    while e.get("k") in ("Unary", "Field", "MethodCall") and e.get("k") != "Path":
        if e["k"] == "Unary":
            e = strip(e["e"])
        elif e["k"] == "Field":
            e = strip(e["e"])
        else:
            break
    if e.get("k") == "Path" and "local" in e["path"]:
        return e["path"]["id"], e["path"]["local"]
    return None, None


def uses_tr(call, tr_ids):
    """Does this call pass the incoming tail-recursion set (by reference) as an argument?"""
    for a in call.get("args", []):
        i, _ = local_id(a)
        if i in tr_ids:
            return True
    return False


KNOWN_TR = ("iterm_tr", "term", "open_def", "call", "iterm")
_FACTS = None
_CONTAINER = {}


def tr_calls(e, tr_ids, depth=2):
    """Method calls inside e that receive the incoming `tr`: list of (method name, first argument expr, node).
    A call of another first-party method that is handed `tr` (a helper split off the compiler's `term`) is looked
    into: the calls it makes with its own parameter count as made here. _CONTAINER[id(node)] is the helper body the node lives in."""
    out = []
    for n in find(e, lambda n: n.get("k") == "MethodCall"):
        if not uses_tr(n, tr_ids):
            continue
        if n["m"]["name"] in KNOWN_TR:
            out.append((n["m"]["name"], n["args"][0] if n["args"] else None, n))
            continue
        c = n["m"].get("res") or n["m"].get("def") or ""
        fn = _FACTS.hir_fn(c) if (_FACTS is not None and depth > 0 and c.startswith("jaq_core::compile::")) else None
        if fn is None:
            continue
        # which parameter of the helper receives tr (parameter 0 is self)
        ids = set()
        for k, a in enumerate(n["args"]):
            i, _ = local_id(a)
            if i in tr_ids and k + 1 < len(fn["params"]):
                ids |= {b["id"] for b in find(fn["params"][k + 1], lambda x: x.get("k") == "Bind")}
        for mname, a0, node in tr_calls(fn["body"], ids, depth - 1):
            _CONTAINER.setdefault(id(node), fn["body"])
            out.append((mname, a0, node))
    return out


def decision_tree(e, inits):
    """If-tree of an expression with conditions named by the (resolved) method that computes them."""
    e = strip(e)
    if e.get("k") == "Block":
        if e.get("expr") is not None:
            # remember let-bound conditions
            for s in e["stmts"]:
                if s.get("k") == "Let":
                    for b in find(s["pat"], lambda x: x.get("k") == "Bind"):
                        inits[b["id"]] = s.get("init")
            return decision_tree(e["expr"], inits)
        return "?"
    if e.get("k") == "If":
        c, neg = cond_name(e["c"], inits)
        t, f = decision_tree(e["t"], inits), decision_tree(e["f"], inits) if e.get("f") else "none"
        if neg:
            t, f = f, t
        return ("if", c, t, f)
    if e.get("k") == "Tup":
        # (CallType, Tr) pairs: the call type is the first component
        return decision_tree(e["xs"][0], inits)
    if e.get("k") == "Path":
        d = e["path"].get("def") or ""
        if d.startswith(CT + "::"):
            return d.split("::")[-1]
        i = e["path"].get("id")
        if i in inits and inits[i] is not None:
            return decision_tree(inits[i], inits)
    if e.get("k") == "Assign":
        return "?"
    return "?"


def cond_name(c, inits, depth=0):
    c = strip(c)
    if c.get("k") == "Unary" and c["op"] == "!":
        n, neg = cond_name(c["e"], inits, depth)
        return n, not neg
    if c.get("k") == "MethodCall":
        return c["m"]["name"], False
    if c.get("k") == "Path" and "local" in c["path"] and depth < 4:
        i = c["path"]["id"]
        if inits.get(i) is not None:
            return cond_name(inits[i], inits, depth + 1)
    if c.get("k") == "DropTemps":
        return cond_name(c["e"], inits, depth)
    return "?", False


def run(facts, tier):
    global _FACTS
    _FACTS = facts
    t0 = time.time()
    rules = []

    # ---------------- T4.1 tail-position inheritance
    t1 = Rule("T4.1", "tail positions: the set of tail-recursive callees allowed at a term is handed down exactly to both sides of `,`, the right side of `|`, `as .. |` and `//`, every `then` and the `else`, the projection of `foreach`, the body after a local `def` (and the definitions themselves), and to calls; every other sub-term is compiled with the empty set", floor=40)
    fn = facts.hir_find(r"^jaq_core::compile::Compiler::<.*>::term$", "jaq_core")
    if len(fn) != 1:
        t1.missing_anchor("Compiler::term")
    else:
        fn = fn[0]
        tr_ids = set()
        for idx, p in enumerate(fn["params"]):
            for b in find(p, lambda n: n.get("k") == "Bind"):
                if idx == 2:
                    tr_ids.add(b["id"])
        ms = find(fn["body"], lambda n: n.get("k") == "Match" and n.get("src") == "Normal" and n["scrut_ty"].startswith(PT))
        variants = adt_variants(facts, PT)
        if not ms or not variants or len(tr_ids) != 1:
            t1.missing_anchor("match on parse::Term in Compiler::term / third parameter `tr`")
        else:
            top = ms[0]
            # expected uses of `tr` per parse-term variant: multiset of method names
            SPEC = {"IfThenElse": ["iterm_tr", "term"], "Def": ["open_def", "term"], "Call": ["call"], "Fold": ["iterm_tr"], "BinOp": None}
            for name, nf in variants:
                cs = candidates(top["arms"], C(f"{PT}::{name}", *([ANY] * nf)))
                if len(cs) != 1 or cs[0][1] != "sure":
                    t1.violate(f"arm/{name}", f"no unique arm for parse::Term::{name} in Compiler::term")
                    continue
                arm = top["arms"][cs[0][0]]
                calls = tr_calls(arm["body"], tr_ids)
                got = sorted(c[0] for c in calls)
                if name == "BinOp":
                    continue
                want = sorted(SPEC.get(name, []))
                t1.examined(name, True, {"term": name, "children_compiled_with_tr": got})
                if got != want:
                    t1.violate(f"variant/{name}", f"parse::Term::{name}: sub-terms compiled with the incoming tail-call set via {got}, expected {want} (a tail position was lost or a non-tail position gained one)", where=arm["sp"])
                if name == "Fold":
                    # the projection only: the call must sit in the `foreach` arm with a third argument
                    for mname, a0, node in calls:
                        inner = [mm for mm in find(_CONTAINER.get(id(node)) or arm["body"], lambda n: n.get("k") == "Match" and n.get("src") == "Normal") if find(mm, lambda x: x is node)]
                        arms_with = [a for mm in inner for a in mm["arms"] if find(a["body"], lambda x: x is node)]
                        lits = [l for a in arms_with for l in find(a["pat"], lambda n: n.get("k") == "Lit" and "str" in n["lit"])]
                        if not any(l["lit"]["str"] == "foreach" for l in lits):
                            t1.violate("fold/projection", "the tail-call set is handed to a reduce/foreach argument other than the projection of `foreach`", where=node["sp"])
            # BinOp: per operator shape, which side gets tr
            cs = candidates(top["arms"], C(f"{PT}::BinOp", ANY, ANY, ANY))
            arm = top["arms"][cs[0][0]] if cs else None
            if arm is None:
                t1.violate("binop/anchor", "BinOp arm not found")
            else:
                pos = {}
                for i, p in enumerate(arm["pat"]["pats"]):
                    for b in find(p, lambda n: n.get("k") == "Bind"):
                        pos[b["id"]] = i
                opm = [mm for mm in find(arm["body"], lambda n: n.get("k") == "Match" and n.get("src") == "Normal" and "BinaryOp" in n["scrut_ty"])
                       if any(tr_calls(a["body"], tr_ids) for a in mm["arms"])]
                if len(opm) != 1:
                    t1.violate("binop/table", "the per-operator tail-position table inside the BinOp arm was not found")
                else:
                    SIDE = {",": {0, 2}, "|": {2}, "as": {2}, "//": {2}}
                    for tok, v in shapes().items():
                        cs2 = candidates(opm[0]["arms"], v)
                        if len(cs2) != 1 or cs2[0][1] != "sure":
                            t1.violate(f"binop/arm/{tok}", f"no unique arm for operator `{tok}`")
                            continue
                        sides = set()
                        for mname, a0, node in tr_calls(opm[0]["arms"][cs2[0][0]]["body"], tr_ids):
                            i, _ = local_id(a0)
                            if i in pos:
                                sides.add(pos[i])
                        want = SIDE.get(tok, set())
                        t1.examined(("BinOp", tok), True, {"operator": tok, "operands_in_tail_position": sorted("left" if s == 0 else "right" for s in sides)})
                        if sides != want:
                            nm = lambda S: sorted("left" if s == 0 else "right" for s in S) or ["none"]
                            t1.violate(f"binop/{tok}", f"operator `{tok}`: operands compiled as tail positions: {nm(sides)}, the design says {nm(want)}", where=opm[0]["arms"][cs2[0][0]]["sp"])
    rules.append(t1.finish())

    # ---------------- T4.2 call classification
    t2 = Rule("T4.2", "call classification: a call to a sibling is Inline / CatchOne / CatchAll depending on whether its pending tail calls are permitted here and whether it calls itself; a call to an enclosing definition is a tail call (Throw) exactly when that definition is in the permitted set, else CatchAll; module-level definitions are CatchOne when self-recursive else Inline", floor=4)
    fn = facts.hir_find(r"^jaq_core::compile::Locals::<.*>::call$", "jaq_core")
    if len(fn) != 1:
        t2.missing_anchor("Locals::call")
    else:
        ms = find(fn[0]["body"], lambda n: n.get("k") == "Match" and n.get("src") == "Normal")
        fun_adt = "jaq_core::compile::Fun"
        if not ms:
            t2.missing_anchor("match in Locals::call")
        else:
            WANT = {"Sibling": ("if", "is_subset", ("if", "remove", "CatchOne", "Inline"), "CatchAll"), "Parent": ("if", "contains", "Throw", "CatchAll")}
            for name, nf in adt_variants(facts, fun_adt) or []:
                cs = candidates(ms[0]["arms"], T(C(f"{fun_adt}::{name}", *([ANY] * nf)), ANY))
                if len(cs) != 1 or cs[0][1] != "sure":
                    t2.violate(f"arm/{name}", f"Locals::call: no unique arm for Fun::{name}")
                    continue
                body = ms[0]["arms"][cs[0][0]]["body"]
                if name == "Arg":
                    t2.examined(name, True, {"callee_kind": name, "compiled_as": "variable reference"})
                    if any(n for n in find(body, lambda n: n.get("k") == "Path" and (n["path"].get("def") or "").startswith(CT))):
                        t2.violate("arg", "a filter argument is called with a call type (it must be a plain variable reference)")
                    continue
                # the decision is the `let typ = ..` / `let (typ, tr_) = ..` in the arm
                inits = {}
                trees = []
                blk = strip(body)
                stmts = blk.get("stmts", []) if blk.get("k") == "Block" else []
                for s in stmts:
                    if s.get("k") == "Let" and s.get("init") is not None:
                        for b in find(s["pat"], lambda x: x.get("k") == "Bind"):
                            inits[b["id"]] = s["init"]
                        if find(s["init"], lambda n: n.get("k") == "Path" and (n["path"].get("def") or "").startswith(CT + "::")):
                            trees.append(decision_tree(s["init"], dict(inits)))
                got = trees[0] if trees else None
                t2.examined(name, True, {"callee_kind": name, "decision": got})
                if got != WANT.get(name):
                    t2.violate(f"tree/{name}", f"call classification for a {name.lower()} definition is {got}, the design (CallType docs, tco test) says {WANT.get(name)}", where=ms[0]["arms"][cs[0][0]]["sp"])
    fn = facts.hir_find(r"^jaq_core::compile::Compiler::<.*>::call_mod_id$", "jaq_core")
    if len(fn) != 1:
        t2.missing_anchor("Compiler::call_mod_id")
    else:
        inits = {}
        trees = []
        for s in strip(fn[0]["body"]).get("stmts", []):
            if s.get("k") == "Let" and s.get("init") is not None and find(s["init"], lambda n: n.get("k") == "Path" and (n["path"].get("def") or "").startswith(CT + "::")):
                trees.append(decision_tree(s["init"], inits))
        got = trees[0] if trees else None
        t2.examined("module-def", True, {"callee_kind": "module-level definition", "decision": got})
        if got != ("if", "contains", "CatchOne", "Inline"):
            t2.violate("tree/module", f"call classification for module-level definitions is {got}, expected ('if','contains','CatchOne','Inline')", where=fn[0]["sp"])
    rules.append(t2.finish())

    # ---------------- T4.3 trampoline table
    t3 = Rule("T4.3", "trampoline: Inline runs the body directly, CatchOne/CatchAll run it on an explicit stack that expands thrown tail calls (only its own / all), Throw returns the tail call as an exception instead of recursing; in value and path mode every call of a definition goes through this dispatcher (no direct recursion on the callee)", floor=6)
    fn = facts.hir_fn("jaq_core::filter::def_run")
    if fn is None:
        t3.missing_anchor("filter::def_run")
    else:
        ms = [m for m in find(fn["body"], lambda n: n.get("k") == "Match" and n.get("src") == "Normal") if CT in n_scrut(m)]
        if len(ms) != 1:
            t3.violate("anchor", "match on CallType in def_run not found")
        else:
            for name, nf in adt_variants(facts, CT) or []:
                cs = candidates(ms[0]["arms"], C(f"{CT}::{name}"))
                if len(cs) != 1 or cs[0][1] != "sure":
                    t3.violate(f"arm/{name}", f"def_run: no unique arm for CallType::{name}")
                    continue
                body = ms[0]["arms"][cs[0][0]]["body"]
                cl = callees(body)
                stack = any(c.endswith("Stack::<I, F>::new") or c.endswith("stack::Stack::new") or "::Stack" in c and c.endswith("::new") for c in cl)
                throws = bool(find(body, lambda n: n.get("k") in ("Path", "Call") and "TailCall" in str((n.get("path") or n.get("f", {}).get("path") or {}).get("def", ""))))
                catch_arg = None
                # the catch predicate is a local closure applied to a boolean literal (all = true/false)
                for n in find(body, lambda n: n.get("k") == "Call" and strip(n["f"]).get("k") == "Path" and "local" in strip(n["f"])["path"] and len(n["args"]) == 1):
                    a = strip(n["args"][0])
                    if a.get("k") == "Lit" and "bool" in a["lit"]:
                        catch_arg = a["lit"]["bool"]
                got = (stack, throws, catch_arg)
                want = {"Inline": (False, False, None), "CatchOne": (True, False, False), "CatchAll": (True, False, True), "Throw": (False, True, None)}.get(name)
                t3.examined(name, True, {"call_type": name, "explicit_stack": stack, "throws_tail_call": throws, "catches_all": catch_arg})
                if got != want:
                    t3.violate(f"row/{name}", f"def_run for CallType::{name}: (explicit stack, throws tail call, catch-all) = {got}, expected {want}", where=ms[0]["arms"][cs[0][0]]["sp"])
        # the catch predicate: all || tc.0 == id
        guards = [a["guard"] for m in find(fn["body"], lambda n: n.get("k") == "Match") for a in m["arms"] if a.get("guard") is not None]
        okg = False
        for g in guards:
            g = strip(g)
            if g.get("k") == "Binary" and g["op"] == "||":
                sides = [strip(g["l"]), strip(g["r"])]
                has_all = any(s.get("k") == "Path" and "local" in s["path"] for s in sides)
                has_eq = any(s.get("k") == "Binary" and s["op"] == "==" for s in sides)
                okg = okg or (has_all and has_eq)
        t3.examined("catch-predicate", True, {"catch_predicate_is_all_or_same_id": okg})
        if not okg:
            t3.violate("catch-predicate", "the trampoline no longer continues exactly on `all || thrown id == own id`", where=fn["sp"])
    # every CallDef arm of run/paths dispatches through def_run and never recurses on the callee directly
    TERM = "jaq_core::compile::Term"
    for mode in ("run", "paths"):
        f2 = facts.hir_fn(f"jaq_core::filter::<impl jaq_core::compile::TermId>::{mode}")
        if f2 is None:
            t3.missing_anchor(f"TermId::{mode}")
            continue
        ms = [m for m in find(f2["body"], lambda n: n.get("k") == "Match" and n.get("src") == "Normal") if len(m["arms"]) >= 20]
        if not ms:
            t3.missing_anchor(f"term match in TermId::{mode}")
            continue
        cs = candidates(ms[0]["arms"], C(f"{TERM}::CallDef", ANY, ANY, ANY, ANY))
        arm = ms[0]["arms"][cs[0][0]]
        id_ids = {b["id"] for b in find(arm["pat"]["pats"][0], lambda n: n.get("k") == "Bind")}
        direct = [n for n in find(arm["body"], lambda n: n.get("k") == "MethodCall" and n["m"]["name"] in ("run", "paths", "update")) if local_id(n["recv"])[0] in id_ids]
        via = [n for n in find(arm["body"], lambda n: n.get("k") == "Call" and (strip(n["f"]).get("path") or {}).get("def") == "jaq_core::filter::def_run")]
        passes_ct = any(any(local_id(a)[0] in {b["id"] for b in find(arm["pat"]["pats"][3], lambda n: n.get("k") == "Bind")} for a in n["args"]) for n in via)
        t3.examined(("dispatch", mode), True, {"mode": mode, "through_def_run": len(via), "direct_recursion_on_callee": len(direct), "passes_call_type": passes_ct})
        if direct or len(via) != 1 or not passes_ct:
            t3.violate(f"dispatch/{mode}", f"in {mode} mode a call of a definition does not go (only) through the trampoline dispatcher with its call type: def_run x{len(via)}, direct calls on the callee x{len(direct)}", where=(direct[0]["sp"] if direct else arm["sp"]))
    rules.append(t3.finish())

    # ---------------- G4.4 growth guards
    g4 = Rule("G4.4", "growth guards: the trampoline and the fold re-push an iterator only if, after it has been advanced, its size hint is not (0, Some(0)) -- exhausted iterators are not left on the stack; dropping a lazy list is iterative", floor=3)
    HINT_WRAPPERS = {re.sub(r"<[^<>]*>", "", d) for d in result_wrappers(facts, r"core::iter::traits::iterator::Iterator::size_hint$", {"jaq_core"})}
    HINT_WRAPPERS |= result_wrappers(facts, r"core::iter::traits::iterator::Iterator::size_hint$", {"jaq_core"})
    for rx, crate, what in [(r"^<jaq_core::stack::Stack<.*> as core::iter::traits::iterator::Iterator>::next$", "jaq_core", "Stack::next"),
                            (r"^jaq_core::fold::fold::\{closure#0\}$", "jaq_core", "fold")]:
        js = facts.mir_find(rx, crate)
        if len(js) != 1:
            g4.missing_anchor(what)
            continue
        b = Body(js[0])
        hints = b.find_calls(r"core::iter::traits::iterator::Iterator::size_hint$")
        # the same test made through a first-party helper (e.g. `is_exhausted(&it)`)
        hints += [i for i, t in b.calls() if (t.get("fn") or "") in HINT_WRAPPERS or (t.get("res") or "") in HINT_WRAPPERS]
        nexts = b.find_calls(r"core::iter::traits::iterator::Iterator::next$")
        pushes = b.find_calls(r"alloc::vec::Vec::<T, A>::push$")
        ok_any = False
        for h in hints:
            # the iterator tested is the iterator advanced: both receivers are borrows of the same local
            roots = b.ref_roots(b.arg_locals(h))
            after_next = [n for n in nexts if b.node_dominates(n, h) and b.ref_roots(b.arg_locals(n)) & roots]
            sws = b.switches_on([b.call_result_local(h)])
            guarded = [p for p in pushes if any(b.controlled_by(p, sw) for sw in sws)]
            ok = bool(after_next) and bool(guarded)
            ok_any = ok_any or ok
            g4.examined((what, b.bbs[h]["t"]["sp"]), True, {"fn": what, "size_hint_after_next": bool(after_next), "guarded_pushes": len(guarded)})
        if not ok_any:
            g4.violate(f"guard/{what}", f"in {what} the re-push of the current iterator is not guarded by a size-hint test made after advancing it: exhausted iterators accumulate (memory grows with the number of iterations)", where=js[0]["sp"])
    dj = facts.mir_find(r"^<jaq_core::rc_lazy_list::List<.*> as core::ops::drop::Drop>::drop$", "jaq_core")
    if len(dj) != 1:
        g4.missing_anchor("Drop for rc_lazy_list::List")
    else:
        b = Body(dj[0])
        # a loop: some block reachable from itself
        loop = any(i in b.reachable(t, unwind=False) for i in range(b.n) for t, k in b.succ(i, unwind=False))
        g4.examined("list-drop", True, {"iterative_drop_loop": loop})
        if not loop:
            g4.violate("list-drop", "dropping a lazy list is not iterative any more: a long evaluated list would be dropped recursively (stack overflow)", where=dj[0]["sp"])
    rules.append(g4.finish())

    # ---------------- G4.6 sequenced streams can report exhaustion
    g6 = Rule("G4.6", "what the evaluators append to a stream with `chain` (the right operand of `,`, continuations) has a concrete iterator type that can report exhaustion through its size hint: "
              "no `core::iter::from_fn` source (its hint is always (0, None)), else the growth guard of G4.4 can never drop the finished frame and the trampoline keeps one frame per iteration", floor=2)
    by_def = {}
    for body in facts.mir("jaq_core"):
        by_def.setdefault(body["def"], body)
    def concrete(body, local, depth=0):
        """type of a local, opaque `impl Iterator` results of first-party helpers replaced by the helper's concrete return type"""
        ty = body["locals"][local]["ty"]
        if "impl " not in ty or depth > 2:
            return ty
        for bb_ in body["bbs"]:
            t_ = bb_["t"]
            if t_["k"] == "Call" and (t_.get("d") or {}).get("l") == local and not (t_.get("d") or {}).get("pr"):
                callee = by_def.get(t_.get("res") or t_.get("fn") or "")
                if callee is not None:
                    return concrete(callee, 0, depth + 1)
        return ty
    NEVER_EXHAUSTED = re.compile(r"core::iter::sources::from_fn::FromFn|core::iter::sources::repeat_with::RepeatWith|core::iter::sources::repeat::Repeat<")
    n6 = 0
    for body in facts.mir("jaq_core"):
        if not re.match(r"^jaq_core::filter::", body["def"]) or body.get("test"):
            continue
        b = Body(body)
        for i in b.find_calls(r"core::iter::traits::iterator::Iterator::chain$"):
            al = b.arg_locals(i, 1)
            tys = [concrete(body, l) for l in al] or [(b.bbs[i]["t"].get("argtys") or ["", ""])[1]]
            bad = [ty for ty in tys if NEVER_EXHAUSTED.search(ty)]
            n6 += 1
            g6.examined(("chain", body["def"].split("::{closure")[0], n6), True, {"in": body["def"], "appended_type": tys[0][:120], "can_report_exhaustion": not bad})
            if bad:
                g6.violate(f"never-exhausted/{body['def'].split('::{closure')[0]}", f"`{body['def']}` appends an iterator of type `{bad[0][:100]}` to a stream: its size hint never becomes (0, Some(0)), so finished `l, r` frames stay on the evaluation stack (memory grows with every iteration of a tail-recursive filter)", where=b.bbs[i]["t"]["sp"])
    rules.append(g6.finish())

    # ---------------- G4.5 calls drop the caller's bindings in every evaluator (shared with C02 T2.8)
    from c02 import rule_ctx_agreement
    rules.append(rule_ctx_agreement(facts, "G4.5").finish())

    explanation = ("Constant stack/heap for all nests is a run-time quantity. Decided: the four decision tables of the tail-call optimisation as extracted from the typed HIR equal the design "
                   "(doc comments of compile.rs, the property text), both evaluators dispatch calls through the trampoline, and the two growth guards test the size hint after advancing.")
    return finish("C04", "other", rules, t0, tier, explanation, ["the tables are taken as the design; their adequacy for every nest shape is not decided"])


def n_scrut(m):
    return m.get("scrut_ty", "")
