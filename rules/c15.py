"""C15 — parsing follows the documented grammar: precedence, associativity and token tables (table clauses)."""
import re
import time

from common import Rule, finish
from hirtab import ANY, C, L, T, adt_variants, callees, candidates, lit_value, top_match
from hirutil import find, lit_str, strip, walk

BO = "jaq_core::load::parse::BinaryOp"
MATH = "jaq_core::ops::Math"
CMP = "jaq_core::ops::Cmp"
NONE = C("core::option::Option::None")
SOME = C("core::option::Option::Some", ANY)

# the manual's table, loosest first; operators of one row have equal precedence
ROWS = [
    ["|"], [","], ["as"], ["=", "|=", "+=", "-=", "*=", "/=", "%=", "//="], ["//"], ["or"], ["and"],
    ["==", "!="], ["<", "<=", ">", ">="], ["+", "-"], ["*", "/"], ["%"],
]
RIGHT = {"|", "as", "=", "|=", "+=", "-=", "*=", "/=", "%=", "//="}


def shapes():
    s = {"|": C(f"{BO}::Pipe", NONE), "as": C(f"{BO}::Pipe", SOME), ",": C(f"{BO}::Comma"), "=": C(f"{BO}::Assign"), "|=": C(f"{BO}::Update"),
         "//": C(f"{BO}::Alt"), "//=": C(f"{BO}::UpdateAlt"), "or": C(f"{BO}::Or"), "and": C(f"{BO}::And")}
    for tok, m in (("+", "Add"), ("-", "Sub"), ("*", "Mul"), ("/", "Div"), ("%", "Rem")):
        s[tok] = C(f"{BO}::Math", C(f"{MATH}::{m}"))
        s[tok + "="] = C(f"{BO}::UpdateMath", C(f"{MATH}::{m}"))
    for tok, m in (("<", "Lt"), (">", "Gt"), ("<=", "Le"), (">=", "Ge"), ("==", "Eq"), ("!=", "Ne")):
        s[tok] = C(f"{BO}::Cmp", C(f"{CMP}::{m}"))
    return s


def expr_value(e):
    """Constructor expression -> domain value (None if not a constructor expression)."""
    e = strip(e)
    if e.get("k") == "Path":
        p = e["path"]
        d = p.get("def") or p.get("selfctor")
        if d and (p.get("ctor") or "").startswith("Variant"):
            return C(d)
        return None
    if e.get("k") == "Call":
        f = strip(e["f"])
        if f.get("k") == "Path" and (f["path"].get("ctor") or "").startswith("Variant"):
            args = [expr_value(a) for a in e["args"]]
            return C(f["path"]["def"], *[a if a is not None else ANY for a in args])
    if e.get("k") == "Block":
        # `{ let x = ..; BinaryOp::Pipe(Some(x)) }`: value of the tail expression
        if e.get("expr") is not None:
            return expr_value(e["expr"])
    return None


def same(a, b):
    if a is ANY or b is ANY or a.get("any") or b.get("any"):
        return True
    return a.get("ctor") == b.get("ctor") and len(a["args"]) == len(b["args"]) and all(same(x, y) for x, y in zip(a["args"], b["args"]))


def run(facts, tier):
    t0 = time.time()
    rules = []
    S = shapes()

    # ---------------- T15.1 precedence
    t1 = Rule("T15.1", "operator precedence: evaluating `BinaryOp::precedence` over the 25 operator shapes gives the strict chain of the manual: | < , < `as $x |` < assignments < // < or < and < ==,!= < <,<=,>,>= < +,- < *,/ < %", floor=25)
    fn = facts.hir_find(r"^<jaq_core::load::parse::BinaryOp<.*> as jaq_core::load::prec_climb::Op>::precedence$", "jaq_core")
    m = top_match(fn[0]) if len(fn) == 1 else None
    prec = {}
    if m is None:
        t1.missing_anchor("impl prec_climb::Op for BinaryOp :: precedence")
    else:
        memo = {}

        def ev_shape(v, depth=0):
            key = repr(v)
            if key in memo:
                return memo[key]
            if depth > 30:
                return None
            cs = candidates(m["arms"], v)
            if len(cs) != 1 or cs[0][1] != "sure":
                return None
            r = ev(m["arms"][cs[0][0]]["body"], depth + 1)
            memo[key] = r
            return r

        def ev(e, depth):
            e = strip(e)
            if e.get("k") == "Lit" and "int" in e["lit"]:
                return e["lit"]["int"]
            if e.get("k") == "Binary" and e["op"] in ("+", "-", "*"):
                a, b = ev(e["l"], depth), ev(e["r"], depth)
                if a is None or b is None:
                    return None
                return {"+": a + b, "-": a - b, "*": a * b}[e["op"]]
            if e.get("k") == "MethodCall" and e["m"]["name"] == "precedence":
                v = expr_value(e["recv"])
                return ev_shape(v, depth) if v is not None else None
            return None
        for tok, v in S.items():
            prec[tok] = ev_shape(v)
            t1.examined(tok, True, {"operator": tok, "precedence": prec[tok]})
            if prec[tok] is None:
                t1.violate(f"eval/{tok}", f"precedence of `{tok}` cannot be evaluated as a constant from the table")
        if all(v is not None for v in prec.values()):
            last = None
            for row in ROWS:
                vals = {prec[t] for t in row}
                if len(vals) != 1:
                    t1.violate(f"row/{row[0]}", f"operators {row} should share one precedence, found {[(t, prec[t]) for t in row]}")
                    continue
                v = vals.pop()
                if last is not None and not (last[1] < v):
                    t1.violate(f"chain/{row[0]}", f"`{row[0]}` (precedence {v}) must bind tighter than `{last[0]}` (precedence {last[1]})")
                last = (row[0], v)
    rules.append(t1.finish())

    # ---------------- T15.2 associativity
    t2 = Rule("T15.2", "associativity: right for `|`, `as $x |` and the eight assignment operators, left for all others", floor=25)
    fn = facts.hir_find(r"^<jaq_core::load::parse::BinaryOp<.*> as jaq_core::load::prec_climb::Op>::associativity$", "jaq_core")
    m = top_match(fn[0]) if len(fn) == 1 else None
    if m is None:
        t2.missing_anchor("impl prec_climb::Op for BinaryOp :: associativity")
    else:
        for tok, v in S.items():
            cs = candidates(m["arms"], v)
            got = None
            if len(cs) == 1 and cs[0][1] == "sure":
                b = strip(m["arms"][cs[0][0]]["body"])
                if b.get("k") == "Path":
                    got = (b["path"].get("def") or "").split("::")[-1]
            want = "Right" if tok in RIGHT else "Left"
            t2.examined(tok, True, {"operator": tok, "associativity": got})
            if got != want:
                t2.violate(f"assoc/{tok}", f"`{tok}` is {got}-associative, the manual says {want}")
    rules.append(t2.finish())

    # ---------------- T15.3 tokens
    t3 = Rule("T15.3", "token table of the operator parser: each of the 25 operator tokens maps to the operator the manual names, `,` only where a comma is allowed, nothing else is an operator", floor=25)
    # the table is looked for in every function of the parser (it may be split over the operator parser and helpers of it):
    # all arms `"<token>" => <binary operator>` of matches in jaq_core::load::parse
    seen = {}
    n_tables = 0
    for f in facts.hir("jaq_core"):
        if not f["def"].startswith("jaq_core::load::parse::") or f.get("test"):
            continue
        for mm in find(f["body"], lambda n: n.get("k") == "Match" and n.get("src") == "Normal"):
            hit = False
            for a in mm["arms"]:
                lits_ = [p_ for p_ in find(a["pat"], lambda n: n.get("k") == "Lit" and "str" in n["lit"])]
                if len(lits_) != 1:
                    continue
                v = expr_value(a["body"])
                if v is None or "BinaryOp" not in str(v.get("ctor", "")):
                    # the operator may be wrapped (e.g. `Some(op)` / a tuple with the pattern of `as`)
                    inner = [expr_value(x) for x in find(a["body"], lambda n: n.get("k") == "Call")]
                    inner = [x for x in inner if x is not None and "BinaryOp" in str(x.get("ctor", ""))]
                    if not inner:
                        inner = [x for x in (expr_value(x) for x in find(a["body"], lambda n: n.get("k") == "Path")) if x is not None and "BinaryOp" in str(x.get("ctor", ""))]
                    v = inner[0] if len({str(x.get("ctor")) for x in inner}) == 1 else None
                if v is None:
                    continue
                hit = True
                seen.setdefault(lits_[0]["lit"]["str"], (v, a))
            n_tables += hit
    if len(seen) < 20:
        t3.missing_anchor(f"token table of the operator parser ({len(seen)} token arms found)")
    else:
        for tok, want in S.items():
            v, a = seen.get(tok, (None, None))
            ok = v is not None and same(v, want)
            t3.examined(tok, True, {"token": tok, "maps_to": v["ctor"].split("::")[-1] if v else None})
            if not ok:
                t3.violate(f"token/{tok}", f"token `{tok}` " + ("is not an operator of the parser" if a is None else f"maps to {v} instead of {want['ctor'].split('::')[-1]}"), where=a["sp"] if a else None)
            if tok == "," and a is not None and a.get("guard") is None:
                t3.violate("comma-guard", "`,` is accepted as an operator unconditionally (it must not be one inside argument lists / object values)", where=a["sp"])
            if tok != "," and a is not None and a.get("guard") is not None:
                t3.violate(f"guarded/{tok}", f"token `{tok}` is an operator only under a condition", where=a["sp"])
        for tok in seen:
            if tok not in S:
                t3.violate(f"extra/{tok}", f"token `{tok}` is parsed as a binary operator but is not in the manual's table", where=seen[tok][1]["sp"])
    rules.append(t3.finish())

    # ---------------- T15.4 `as` extends to the right
    t4 = Rule("T15.4", "a binding `f as $x | g` extends as far right as possible: the operator/term sequence is re-climbed on the tail exactly for `Pipe(Some(_))`", floor=2)
    fn = facts.hir_find(r"^jaq_core::load::parse::Term::<.*>::climb$", "jaq_core")
    if len(fn) != 1:
        t4.missing_anchor("parse::Term::climb")
    else:
        ms = [mm for mm in find(fn[0]["body"], lambda n: n.get("k") == "Match" and n.get("src") == "Normal") if "BinaryOp" in mm["scrut_ty"]]
        if len(ms) != 1:
            t4.violate("anchor", "the match on the operator inside Term::climb was not found")
        else:
            for tok, v in S.items():
                cs = candidates(ms[0]["arms"], v)
                rec = False
                if len(cs) == 1 and cs[0][1] == "sure":
                    rec = any(c.endswith("::climb") and "prec_climb" not in c for c in callees(ms[0]["arms"][cs[0][0]]["body"]))
                t4.examined(tok, tok in ("as", "|"), {"operator": tok, "tail_reclimbed": rec} if tok in ("as", "|", ",") else None)
                if rec != (tok == "as"):
                    t4.violate(f"reclimb/{tok}", f"after `{tok}` the rest of the operator sequence is {'re-climbed as one term' if rec else 'not re-climbed'}; only `as $x |` must extend to the right end")
            if not any(c.endswith("prec_climb::climb") for c in callees(fn[0]["body"])):
                t4.violate("no-climb", "Term::climb does not hand the sequence to prec_climb::climb")
    rules.append(t4.finish())

    # ---------------- T15.5 the climbing algorithm's two comparisons
    t5 = Rule("T15.5", "precedence climbing recurses on the right operand when the next operator binds tighter, or equally tight and the current one is right-associative, and consumes operators not looser than the current minimum", floor=3)
    fn = facts.hir_fn("jaq_core::load::prec_climb::climb1")
    if fn is None:
        t5.missing_anchor("prec_climb::climb1")
    else:
        # classify operands by where their value comes from (not by variable names)
        params = {}
        for idx, pp in enumerate(fn["params"]):
            for bnd in find(pp, lambda n: n.get("k") == "Bind"):
                params[bnd["id"]] = idx
        init = {}

        def bind_inits(n, d):
            if n.get("k") in ("Let", "LetExpr") and n.get("init") is not None:
                for bnd in find(n["pat"], lambda x: x.get("k") == "Bind"):
                    init[bnd["id"]] = n["init"]
        walk(fn["body"], bind_inits)

        def origin(x, depth=0):
            x = strip(x)
            if depth > 6:
                return "?"
            if x.get("k") == "Field":
                return origin(x["e"], depth + 1)
            if x.get("k") == "Path" and "local" in x["path"]:
                lid = x["path"]["id"]
                if lid in params:
                    return f"param{params[lid]}"
                if lid in init:
                    return origin(init[lid], depth + 1)
                return "closure-param"
            if x.get("k") == "MethodCall":
                nm_ = x["m"]["name"]
                if nm_ == "precedence":
                    return "prec(" + origin(x["recv"], depth + 1) + ")"
                if nm_ in ("peek", "next_if", "next"):
                    return nm_
                return origin(x["recv"], depth + 1)
            return "?"
        bins = [(n["op"], origin(n["l"]), origin(n["r"])) for n in find(fn["body"], lambda n: n.get("k") == "Binary" and n["op"] in (">", ">=", "<", "<=", "=="))]
        got = sorted(bins)
        want = sorted([(">", "prec(peek)", "prec(next_if)"), ("==", "prec(peek)", "prec(next_if)"), (">=", "prec(closure-param)", "param2")])
        for w in want:
            t5.examined(w, True, {"comparison": f"{w[1]} {w[0]} {w[2]}", "present": w in got})
            if w not in got:
                t5.violate(f"cmp/{w[1]}{w[0]}{w[2]}", f"prec_climb::climb1 no longer contains the comparison `{w[1]} {w[0]} {w[2]}` (found {got})", where=fn["sp"])
        if len(got) != 3:
            t5.violate("cmp/extra", f"prec_climb::climb1 compares precedences differently than the algorithm: {got}", where=fn["sp"])
        # the recursion for the right operand starts at the precedence of the *next* operator (the one just peeked),
        # so that it stops before an operator of the current level
        recs = [n for n in find(fn["body"], lambda n: n.get("k") == "Call" and (strip(n["f"]).get("path") or {}).get("def") == fn["def"])]
        for n in recs:
            o = origin(n["args"][2]) if len(n["args"]) > 2 else "?"
            t5.examined(("recursion", n["sp"]), True, {"right_operand_recursion_starts_at": o})
            if o != "prec(peek)":
                t5.violate("recursion/min", f"the recursion that builds the right operand starts at `{o}` instead of the precedence of the next operator: after a tighter operator it also swallows following operators of the current level (`a - b * c - d` groups as `a - (b * c - d)`)", where=n["sp"])
        if not recs:
            t5.violate("recursion/anchor", "prec_climb::climb1 no longer recurses for the right operand", where=fn["sp"])
    rules.append(t5.finish())

    # ---------------- T15.7 arities of reduce / foreach
    t7 = Rule("T15.7", "`reduce` takes exactly two arguments after the pattern and `foreach` two or three: the compiler's table on (keyword, third argument, fourth argument) "
              "rejects every other arity (an extra argument silently dropped would hide undefined names and typos)", floor=6)
    tabs = []
    for f_ in facts.hir("jaq_core"):
        if not f_["def"].startswith("jaq_core::compile::") or f_.get("test"):
            continue
        for m_ in find(f_["body"], lambda n: n.get("k") == "Match" and n.get("src") == "Normal"):
            lits = {lit_str(p_) for a_ in m_["arms"] for p_ in find(a_["pat"], lambda n: n.get("k") == "Lit")}
            if {"reduce", "foreach"} <= lits:
                tabs.append((f_, m_))
    if len(tabs) != 1:
        t7.missing_anchor(f"the match on (\"reduce\"|\"foreach\", argument, argument) in the compiler ({len(tabs)} found)")
    else:
        f_, m_ = tabs[0]
        SOME, NONE = C("core::option::Option::Some", ANY), C("core::option::Option::None")
        for kw in ("reduce", "foreach"):
            for a3, n3 in ((NONE, 2), (SOME, 3)):
                for a4, n4 in ((NONE, 0), (SOME, 1)):
                    if n3 == 2 and n4 == 1:
                        continue
                    nargs = n3 + n4
                    cs_ = candidates(m_["arms"], T(L(kw), a3, a4))
                    sure = [c_ for c_ in cs_ if c_[1] == "sure"]
                    if not sure or len(cs_) != 1:
                        t7.violate(f"arity/{kw}/{nargs}", f"`{kw}` with {nargs} arguments is not decided by exactly one arm", where=m_["sp"])
                        continue
                    body_ = m_["arms"][sure[0][0]]["body"]
                    rejected = any(c_.endswith("::fail") for c_ in callees(body_))
                    want_reject = not ((kw == "reduce" and nargs == 2) or (kw == "foreach" and nargs in (2, 3)))
                    t7.examined((kw, nargs), True, {"keyword": kw, "arguments": nargs, "rejected": rejected})
                    if rejected != want_reject:
                        t7.violate(f"arity/{kw}/{nargs}", f"`{kw}` with {nargs} arguments is {'rejected' if rejected else 'accepted'}; the grammar says it must be {'rejected' if want_reject else 'accepted'}", where=m_["arms"][sure[0][0]]["sp"])
    rules.append(t7.finish())

    # ---------------- T15.8 operands of binary constructs are combined left to right
    t8 = Rule("T15.8", "constructs with two multi-valued operands (`f + g`, comparisons, `{(k): v}`) nest their operands in source order: the value evaluator hands the "
              "operands to the cartesian-product helper in the order of the term's fields, so that `{(k): v}` is `k as $k | v as $v | ..` (key varies slowest) as the manual says", floor=3)
    from c02 import evaluator as _evaluator, pat_binds as _pat_binds
    f_run, m_run = _evaluator(facts, "run")
    if m_run is None:
        t8.missing_anchor("TermId::run")
    else:
        n_c = 0
        for a in m_run["arms"]:
            pos = {i_: p_ for p_, ids in _pat_binds(a["pat"]).items() for i_ in ids}
            for call in find(a["body"], lambda n: n.get("k") == "Call" and str((strip(n["f"]).get("path") or {}).get("def", "")).startswith("jaq_core::filter::") and len(n.get("args", [])) >= 2):
                ids = [(strip(x).get("path") or {}).get("id") for x in call["args"][:2]]
                if ids[0] in pos and ids[1] in pos and ids[0] != ids[1]:
                    n_c += 1
                    ok = pos[ids[0]] < pos[ids[1]]
                    t8.examined((a["sp"], call["sp"]), True, {"arm": a["sp"], "operands_in_source_order": ok})
                    if not ok:
                        t8.violate("operand-order", "the value evaluator hands two operands of a term to the product helper in reverse order: the second operand becomes the outer loop (`{(\"a\",\"b\"): (1,2)}` yields a1 b1 a2 b2 instead of a1 a2 b1 b2)", where=call["sp"])
        if n_c < 3:
            t8.missing_anchor(f"two-operand arms of the value evaluator that use the product helper ({n_c} found)")
    rules.append(t8.finish())

    # ---------------- T15.9 every path operator the parser reads takes its own postfix `?`
    t9 = Rule("T15.9", "each path part the parser builds (`.k`, `.\"k\"`, `[..]`) is paired with the optionality read from the tokens that follow it "
              "(the parser's `?`-reader, the method of the parser that returns `path::Opt`), never with a constant: otherwise `.a.\"b\"?` makes the whole path optional or is rejected", floor=2)
    PART_OPT = re.compile(r"^\(jaq_core::path::Part<.*>, jaq_core::path::Opt\)$")
    n9 = 0
    for f_ in facts.hir("jaq_core"):
        if not re.match(r"^jaq_core::load::parse::Parser::<", f_["def"]) or f_.get("test"):
            continue
        inits = {}
        for s_ in find(f_["body"], lambda n: n.get("k") == "Let" and n.get("init") is not None):
            for b_ in find(s_["pat"], lambda n: n.get("k") == "Bind"):
                inits[b_["id"]] = s_["init"]
        for tup in find(f_["body"], lambda n: n.get("k") == "Tup" and PART_OPT.match(n.get("ty") or "") and len(n.get("xs", [])) == 2):
            o_ = strip(tup["xs"][1])
            seen = 0
            while o_.get("k") == "Path" and "local" in (o_.get("path") or {}) and o_["path"].get("id") in inits and seen < 4:
                o_ = strip(inits[o_["path"]["id"]]); seen += 1
            from_tokens = o_.get("k") in ("MethodCall", "Call") and o_.get("ty") == "jaq_core::path::Opt" and "Parser" in str(o_.get("recv_ty") or [strip(a_).get("ty") for a_ in o_.get("args", [])])
            unknown = o_.get("k") == "Path" and "local" in (o_.get("path") or {})   # a parameter or pattern binding: not decided here
            n9 += 1
            t9.examined(("part", f_["def"], n9), True, {"fn": f_["def"], "at": tup["sp"], "optionality_read_from_tokens": from_tokens, "undecided": unknown})
            if not from_tokens and not unknown:
                t9.violate(f"const-opt/{f_['def']}", f"`{f_['def']}` builds a path part with a fixed optionality instead of reading the `?` that may follow it", where=tup["sp"])
    rules.append(t9.finish())

    # ---------------- T15.10 the lexer consumes from the front only
    t10 = Rule("T15.10", "the hand-written lexer takes characters from the front of the rest of the input (`trim_start*`, `strip_prefix`, `split_once`) and removes at most the one `\\r` of a line end from "
               "the back: it calls none of the white-space trims that touch the end (`trim`, `trim_end`, `trim_ascii*`) -- trailing blanks are significant to the tests that follow (a comment line ending in `\\` and a blank would continue); trims by an explicit pattern (`trim_end_matches('\\\\')` to count backslashes) are not judged", floor=10)
    for mb in facts.mir("jaq_core"):
        if not re.match(r"^jaq_core::load::lex::|^<jaq_core::load::lex::", mb["def"]) or mb.get("test"):
            continue
        from mirutil import Body as _B
        b_ = _B(mb)
        bad = [(i, t) for i, t in b_.calls() if re.search(r"core::str::<impl str>::(trim|trim_end|trim_right|trim_ascii|trim_ascii_end)$", re.sub(r"::<[^>]*>$", "", t.get("fn") or ""))]
        t10.examined(("lexer-body", mb["def"]), True, {"fn": mb["def"], "trims_from_the_back": len(bad)})
        for i, t in bad:
            t10.violate(f"trim-end/{mb['def'].split('::{closure')[0]}", f"`{mb['def']}` calls `{t.get('fn')}`: the lexer removes a run of characters from the end of a piece of source text", where=t["sp"])
    rules.append(t10.finish())

    # ---------------- T15.6 `@fmt "..."` in key position keeps its format
    t6 = Rule("T15.6", "a format-prefixed string used as a key (`{@base64 \"k\\(f)\": v}`, `.@uri \"..\"`) is parsed into a string term carrying that format, like in term position", floor=2)
    fn = facts.hir_find(r"^jaq_core::load::parse::Parser::<.*>::str_key$", "jaq_core")
    if len(fn) != 1:
        t6.missing_anchor("Parser::str_key")
    else:
        strs = [n for n in find(fn[0]["body"], lambda n: n.get("k") == "Call" and (strip(n["f"]).get("path") or {}).get("def") == "jaq_core::load::parse::Term::Str")]
        with_fmt = 0
        for n in strs:
            a0 = strip(n["args"][0])
            is_none = a0.get("k") == "Path" and str(a0["path"].get("def", "")).endswith("Option::None")
            if not is_none:
                with_fmt += 1
        fmt_tokens = [p for p in find(fn[0]["body"], lambda n: n.get("k") in ("Path", "TupleStruct") and str((n.get("path") or {}).get("def", "")).endswith("lex::Tok::Fmt"))]
        ok = with_fmt >= 1 and bool(fmt_tokens)
        t6.examined("str_key", True, {"string_terms_built": len(strs), "carrying_a_format": with_fmt, "format_tokens_matched": len(fmt_tokens)})
        t6.examined("str_key-none", True)
        if not ok:
            t6.violate("fmt-dropped", "str_key recognises a format token but never builds a string term that carries it: `{@base64 \"k\\(f)\": v}` would behave like a plain string", where=fn[0]["sp"])
    rules.append(t6.finish())

    explanation = ("Decided as finite tables extracted from the typed HIR by pattern semantics and constant folding (no parsing is executed): precedence chain, associativity, token->operator map, "
                   "the `as` right-extension hook and the comparisons of the climbing loop. Not decided: the lexer (comments, whitespace, continuation lines), atoms/postfix binding, patterns, sugar expansions.")
    return finish("C15", "other", rules, t0, tier, explanation, ["the manual's precedence table as quoted in the property statement"])
