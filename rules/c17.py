"""C17 — the command line prints each output once, in order, and reports the true outcome (table and path clauses)."""
import os
import re
import time

from common import REPO, Rule, finish
from hirtab import ANY, C, L, T, adt_variants, callees, candidates, lit_value, top_match
from hirutil import callee as hir_callee, find, strip, walk
from mirutil import Body, FlagGuard, op_local, rvalue_reads

EXIT_SPEC = {"FalseOrNull": 1, "Io": 2, "Report": 3, "NoOutput": 4, "Parse": 5, "Jaq": 5}
# short option -> Cli fields it must set
SHORT_SPEC = {"n": {"null_input"}, "s": {"slurp"}, "c": {"compact_output"}, "r": {"to"}, "j": {"join_output", "to"}, "i": {"in_place"}, "S": {"sort_keys"},
              "C": {"color_output"}, "M": {"monochrome_output"}, "f": {"from_file"}, "L": {"library_path"}, "e": {"exit_status"}, "V": {"version"}, "h": {"help"}, "R": {"from"}}
LONG_FIELD_SPEC = {"from": {"from"}, "raw-input0": {"from"}, "to": {"to"}, "raw-output0": {"to"}, "tab": {"tab"}, "indent": {"indent"}, "arg": {"arg"}, "argjson": {"argjson"},
                   "slurpfile": {"slurpfile"}, "rawfile": {"rawfile"}, "run-tests": {"run_tests"}}


def fields_set(e):
    """Fields of `self` assigned or mutated in expression e."""
    out = set()

    def f(n, d):
        def self_field(x):
            x = strip(x)
            if x.get("k") == "Field" and strip(x["e"]).get("k") == "Path" and (strip(x["e"])["path"].get("local") == "self"):
                return x["name"]
            return None
        if n.get("k") in ("Assign", "AssignOp"):
            fl = self_field(n["l"])
            if fl:
                out.add(fl)
        if n.get("k") == "MethodCall":
            fl = self_field(n["recv"])
            if fl and n["m"]["name"] in ("push", "get_or_insert", "insert", "extend", "replace", "get_or_insert_with"):
                out.add(fl)
    walk(e, f)
    return out


def parse_help(path):
    shorts, longs, pairs = set(), set(), {}
    for line in open(path):
        m = re.match(r"^\s+(?:-(\w), )?--([\w-]+)", line)
        if m:
            longs.add(m.group(2))
            if m.group(1):
                shorts.add(m.group(1))
                pairs[m.group(2)] = m.group(1)
    return shorts, longs, pairs


def flush_rule(facts, f3):
    """every non-error return of the value writer is preceded by a flush of the sink"""
    wj = facts.mir_fn("jaq_fmts::write::formats::write")
    if wj is None:
        f3.missing_anchor("jaq_fmts::write::formats::write")
    else:
        b = Body(wj)
        flushes = b.find_calls(r"std::io::Write::flush$")
        # error returns: blocks that build the Break/Err result
        err_blocks = set(b.find_calls(r"FromResidual<.*>>::from_residual$|FromResidual::from_residual$"))
        for i, bb in enumerate(b.bbs):
            for s in bb["st"]:
                if s.get("k") == "A" and s["p"]["l"] == 0 and s["r"].get("k") == "Agg" and s["r"].get("variant") == "Err":
                    err_blocks.add(i)
        reach = b.reachable(0, removed_nodes=set(flushes) | err_blocks, unwind=False)
        bad = [x for x in reach if b.bbs[x]["t"]["k"] == "Return"]
        f3.examined("flush", True, {"flush_calls": len(flushes), "success_returns_without_flush": len(bad)})
        if not flushes:
            f3.violate("flush/none", "the value writer never flushes its sink", where=wj["sp"])
        elif bad:
            f3.violate("flush/path", "there is a successful return of the value writer that does not flush the sink: an output may stay in a buffer while the next one is computed (or be lost with --in-place)", where=b.bbs[bad[0]]["t"]["sp"])
        # the flush result must be returned / checked
        for fb in flushes:
            res = b.call_result_local(fb)
            used = res == 0 or any(res in rvalue_reads(s["r"]) for bb in b.bbs for s in bb["st"] if s.get("k") == "A") or any(res in [op_local(a) for a in t["args"]] for _, t in b.calls())
            f3.examined(("flush-result", b.bbs[fb]["t"]["sp"]), True)
            if not used:
                f3.violate("flush/ignored", "the result of flush is discarded", where=b.bbs[fb]["t"]["sp"])



def is_in_pattern(body, node):
    """is `node` (a Path) part of a match-arm / let pattern rather than an expression?"""
    for m in find(body, lambda n: n.get("k") == "Match"):
        for a in m["arms"]:
            if find(a["pat"], lambda x: x is node):
                return True
    for l in find(body, lambda n: n.get("k") == "Let"):
        if find(l.get("pat") or {}, lambda x: x is node):
            return True
    return False


def is_err_body(e):
    """does this arm produce an error (Err(..), return Err(..), Err(..)?)"""
    return bool(find(e, lambda n: n.get("k") == "Call" and (strip(n["f"]).get("path") or {}).get("def") == "core::result::Result::Err"))

def run(facts, tier):
    t0 = time.time()
    rules = []

    # ---------------- T17.1 exit codes
    t1 = Rule("T17.1", "exit-status table: false/null last output -> 1, I/O and usage errors -> 2, filter does not compile -> 3, no output -> 4, run-time and input-parse errors -> 5, halt -> the given code; the first and fourth only under --exit-status", floor=8)
    fn = facts.hir_fn("<jaq::Error as std::process::Termination>::report")
    variants = adt_variants(facts, "jaq::Error")
    ms = find(fn["body"], lambda n: n.get("k") == "Match" and n.get("src") == "Normal") if fn else []
    if not ms or not variants:
        t1.missing_anchor("impl Termination for jaq::Error")
    else:
        m = ms[0]
        for name, nf in variants:
            cs = candidates(m["arms"], C(f"jaq::Error::{name}", *([ANY] * nf)))
            if len(cs) != 1 or cs[0][1] != "sure":
                t1.violate(f"arm/{name}", f"no unique arm for error kind {name}")
                continue
            body = strip(m["arms"][cs[0][0]]["body"])
            if name == "Halt":
                cl = callees(body)
                ok = any(c.endswith("std::process::exit") for c in cl)
                t1.examined(name, True, {"error": name, "action": "process::exit(code)" if ok else "?"})
                if not ok:
                    t1.violate("halt", "halt does not terminate the process with the code given to it", where=m["arms"][cs[0][0]]["sp"])
                continue
            code = body["lit"].get("int") if body.get("k") == "Lit" else None
            t1.examined(name, True, {"error": name, "exit_code": code, "expected": EXIT_SPEC.get(name)})
            if name not in EXIT_SPEC:
                t1.violate(f"new-kind/{name}", f"error kind {name} has no documented exit status (maps to {code})", where=m["arms"][cs[0][0]]["sp"])
            elif code != EXIT_SPEC[name]:
                t1.violate(f"code/{name}", f"error kind {name} exits with {code}, the manual says {EXIT_SPEC[name]}", where=m["arms"][cs[0][0]]["sp"])
    # usage error -> 2 in main
    mainf = facts.hir_fn("jaq::main")
    ok2 = False
    if mainf:
        for mm in find(mainf["body"], lambda n: n.get("k") == "Match" and "jaq::cli::Cli::parse" in " ".join(callees(n["scrut"]))):
            for a in mm["arms"]:
                if "Err" in str(a["pat"].get("path", {}).get("def", "")):
                    lits = [lit_value(n["lit"]) for n in find(a["body"], lambda n: n.get("k") == "Lit" and "int" in n["lit"])]
                    t1.examined("usage", True, {"usage_error_exit": lits})
                    ok2 = lits == [2]
    if not ok2:
        t1.violate("usage", "a command-line usage error does not exit with status 2")
    # NoOutput / FalseOrNull only under exit_status
    # (searched in every function of the driver crate and decided by control dependence on the MIR, so that moving the
    # code out of real_main or writing the test as a match guard keeps the rule armed and quiet)
    fg = FlagGuard(facts, "jaq", "jaq::cli::Cli", "exit_status", skip=lambda body: body["def"].startswith("jaq::funs::repl") or (body.get("root") or "").startswith("jaq::funs::repl"))
    n_ctor = 0
    if not fg.ok:
        t1.missing_anchor("field jaq::cli::Cli.exit_status")
    else:
        for d, b_ in sorted(fg.bodies.items()):
            for i_, bb_ in enumerate(b_.bbs):
                for s_ in bb_["st"]:
                    if s_.get("k") == "A" and s_["r"].get("k") == "Agg" and (s_["r"].get("ak") or "") == "Adt:jaq::Error" and s_["r"].get("variant") in ("NoOutput", "FalseOrNull"):
                        n_ctor += 1
                        ok = fg.conditional(d, i_)
                        t1.examined(("exit_status-only", s_["r"]["variant"]), True, {"constructed": s_["r"]["variant"], "in": d, "only_under_exit_status": ok})
                        if not ok:
                            t1.violate(f"exit-status-only/jaq::Error::{s_['r']['variant']}", f"`jaq::Error::{s_['r']['variant']}` is produced without --exit-status (in {d})", where=s_.get("sp"))
        if n_ctor < 2:
            t1.missing_anchor("constructions of Error::NoOutput / Error::FalseOrNull in the driver")
    merging = []
    nb = 0
    for crate, rmir in facts.all_mir():
        if crate != "jaq" or rmir.get("test") or rmir["def"].startswith("jaq::funs::repl") or (rmir.get("root") or "").startswith("jaq::funs::repl"):
            continue
        nb += 1
        b = Body(rmir)
        for i, t in b.calls():
            c = Body.callee(t) or ""
            if re.search(r"core::option::Option::<T>::(or|or_else|xor|and|zip|get_or_insert|get_or_insert_with|insert|filter)$", c):
                if any("core::option::Option<bool>" in b.locals[l]["ty"] for l in b.arg_locals(i)):
                    merging.append((c.split("::")[-1], t["sp"]))
    if nb < 20:
        t1.missing_anchor("MIR bodies of the driver crate")
    t1.examined("last-overwritten", True, {"exit_status_value_merged_with_earlier_runs": merging})
    if merging:
        t1.violate("last-merged", f"the value that decides the --exit-status code is combined with the result of earlier files ({merging[0][0]}): it must be the last output of the whole run", where=merging[0][1])
    rules.append(t1.finish())

    # ---------------- T17.2 options
    t2 = Rule("T17.2", "the options accepted by the parser are exactly those of help.txt; every `-x, --long` pair of the help delegates long -> short('x'); every short option sets the field(s) the manual says it controls", floor=40)
    shorts, longs, pairs = parse_help(os.path.join(REPO, "jaq", "src", "help.txt"))
    fl = facts.hir_fn("jaq::cli::Cli::long")
    fs = facts.hir_fn("jaq::cli::Cli::short")
    ml = top_match(fl) if fl else None
    msh = top_match(fs) if fs else None
    if ml is None or msh is None:
        # the match is followed by Ok(()) : take the first match of the body
        ml = ml or (find(fl["body"], lambda n: n.get("k") == "Match" and n.get("src") == "Normal")[0] if fl else None)
        msh = msh or (find(fs["body"], lambda n: n.get("k") == "Match" and n.get("src") == "Normal")[0] if fs else None)
    if ml is None or msh is None or len(longs) < 20:
        t2.missing_anchor("Cli::long / Cli::short / help.txt")
    else:
        long_arms = {}
        for a in ml["arms"]:
            p = a["pat"]
            if p["k"] == "Lit" and "str" in p["lit"]:
                long_arms[p["lit"]["str"]] = a
        short_arms = {}
        for a in msh["arms"]:
            p = a["pat"]
            if p["k"] == "Lit" and "char" in p["lit"]:
                short_arms[p["lit"]["char"]] = a
        for o in sorted(longs | (set(long_arms) - {""})):
            inh, inp = o in longs, o in long_arms
            t2.examined(("long", o), True, {"option": "--" + o, "in_help": inh, "in_parser": inp})
            if not (inh and inp):
                t2.violate(f"long/{o}", f"--{o} is {'documented in help.txt but not accepted' if inh else 'accepted but missing from help.txt'}")
        for o in sorted(shorts | set(short_arms)):
            inh, inp = o in shorts, o in short_arms
            t2.examined(("short", o), True, {"option": "-" + o, "in_help": inh, "in_parser": inp})
            if not (inh and inp):
                t2.violate(f"short/{o}", f"-{o} is {'documented in help.txt but not accepted' if inh else 'accepted but missing from help.txt'}")
        for lo, sh in sorted(pairs.items()):
            a = long_arms.get(lo)
            if not a:
                continue
            calls = find(a["body"], lambda n: n.get("k") == "MethodCall" and n["m"]["name"] == "short")
            ch = None
            if calls:
                x = strip(calls[0]["args"][0])
                ch = x["lit"].get("char") if x.get("k") == "Lit" else None
            t2.examined(("pair", lo), True, {"long": lo, "delegates_to": ch, "help_says": sh})
            if ch != sh:
                t2.violate(f"pair/{lo}", f"--{lo} should behave as -{sh} (help.txt) but " + (f"delegates to -{ch}" if ch else "does not delegate to a short option"), where=a["sp"])
        for sh, want in sorted(SHORT_SPEC.items()):
            a = short_arms.get(sh)
            if not a:
                continue
            got = fields_set(a["body"])
            t2.examined(("field", sh), True, {"short": sh, "sets": sorted(got)})
            if got != want:
                t2.violate(f"field/{sh}", f"-{sh} sets {sorted(got)}, the manual says it controls {sorted(want)}", where=a["sp"])
        # -j implies raw output only when no output format has been chosen: it must not overwrite `--to` / `--raw-output0`
        a = short_arms.get("j")
        if a is not None:
            assigns = [n for n in find(a["body"], lambda n: n.get("k") in ("Assign", "AssignOp") and strip(n["l"]).get("k") == "Field" and strip(n["l"]).get("name") == "to")]
            keeps = [n for n in find(a["body"], lambda n: n.get("k") == "MethodCall" and n["m"]["name"] in ("get_or_insert", "get_or_insert_with") and strip(n["recv"]).get("k") == "Field" and strip(n["recv"]).get("name") == "to")]
            t2.examined(("mode", "j"), True, {"short": "j", "output_format_set_only_if_unset": bool(keeps) and not assigns})
            if assigns or not keeps:
                t2.violate("field/j/overwrite", "-j overwrites an output format chosen earlier on the command line (`--to FORMAT -j`, `--raw-output0 -j`) instead of defaulting it: the result depends on the order of the options", where=a["sp"])
        for lo, want in sorted(LONG_FIELD_SPEC.items()):
            a = long_arms.get(lo)
            if not a:
                continue
            got = fields_set(a["body"])
            t2.examined(("field", lo), True, {"long": lo, "sets": sorted(got)})
            if got != want:
                t2.violate(f"field/--{lo}", f"--{lo} sets {sorted(got)}, expected {sorted(want)}", where=a["sp"])
    rules.append(t2.finish())

    # ---------------- F17.3 flush after each output + terminator table
    f3 = Rule("F17.3", "the value writer flushes its sink on every non-error return (each output is delivered completely before the next is computed), and the terminator written after a value is the documented one per format and --join-output", floor=10)
    flush_rule(facts, f3)
    wh = facts.hir_fn("jaq_fmts::write::formats::write")
    fmts = adt_variants(facts, "jaq_fmts::Format")
    TERM = {"Cbor": (b"", b""), "Toml": (b"", b""), "Raw0": (b"\0", b"\0"), "Yaml": (b"\n", b"\n"), "Csv": (b"\n", b"\n"), "Tsv": (b"\n", b"\n"),
            "Json": (b"\n", b""), "Raw": (b"\n", b""), "Xml": (b"\n", b"")}
    if wh and fmts:
        # the table is looked for in every function of the writer module (it may live in a helper of `write`)
        tabs = []
        for f in facts.hir("jaq_fmts"):
            if not f["def"].startswith("jaq_fmts::write::") or f.get("test"):
                continue
            for m in find(f["body"], lambda n: n.get("k") == "Match" and n.get("src") == "Normal"):
                if "jaq_fmts::Format" in m.get("scrut_ty", "") and all(strip(a["body"]).get("k") == "Lit" and "bytes" in strip(a["body"])["lit"] for a in m["arms"]):
                    tabs.append((f, m))
        tm = [m for f, m in tabs]

        def join_ids(fn):
            """bindings of `fn` that hold the --join-output flag: destructured from / read off the field `join` of the writer options"""
            ids = set()
            for st in find(fn["body"], lambda n: n.get("k") == "Struct" and (n.get("path") or {}).get("def") == "jaq_fmts::write::Writer"):
                for fl in st["fields"]:
                    if fl["name"] == "join":
                        ids |= {b_["id"] for b_ in find(fl["pat"], lambda n: n.get("k") == "Bind")}
            for l in find(fn["body"], lambda n: n.get("k") == "Let" and n.get("init") is not None):
                if find(l["init"], lambda n: n.get("k") == "Field" and n.get("name") == "join"):
                    ids |= {b_["id"] for b_ in find(l["pat"], lambda n: n.get("k") == "Bind")}
            return ids

        def is_join_guard(guard):
            """the guard of the table tests the --join-output flag"""
            tf = tabs[0][0]
            locs = [n["path"] for n in find(guard, lambda n: n.get("k") == "Path" and n["path"].get("id") is not None)]
            if len(locs) != 1:
                return False
            gid = locs[0]["id"]
            if tf is wh or tf["def"] == wh["def"]:
                return gid in join_ids(wh) or bool(find(guard, lambda n: n.get("k") == "Field" and n.get("name") == "join"))
            pids = [b_["id"] for p_ in tf["params"] for b_ in find(p_, lambda n: n.get("k") == "Bind")][:len(tf["params"])]
            if gid not in pids:
                return False
            k = pids.index(gid)
            jids = join_ids(wh)
            for call in find(wh["body"], lambda n: n.get("k") in ("Call", "MethodCall") and (hir_callee(n) or "") == tf["def"]):
                args = call["args"]
                if k < len(args) and (find(args[k], lambda n: n.get("k") == "Path" and n["path"].get("id") in jids) or find(args[k], lambda n: n.get("k") == "Field" and n.get("name") == "join")):
                    return True
            return False
        if len(tm) != 1:
            f3.violate("terminator/anchor", f"the terminator table (one match on the format yielding byte strings, in the writer module) was not found ({len(tm)} candidates)")
        elif tabs[0][0]["def"] != wh["def"] and tabs[0][0]["def"] not in callees(wh["body"]):
            f3.violate("terminator/unused", f"the terminator table lives in `{tabs[0][0]['def']}`, which the value writer does not call")
        else:
            for name, nf in fmts:
                cs = candidates(tm[0]["arms"], C(f"jaq_fmts::Format::{name}"))
                lit = lambda i: bytes(strip(tm[0]["arms"][i]["body"])["lit"]["bytes"])
                if len(cs) == 1 and cs[0][1] == "sure":
                    got = (lit(cs[0][0]), lit(cs[0][0]))
                elif len(cs) == 2 and cs[0][1] == "guard" and cs[1][1] == "sure":
                    g = callees(tm[0]["arms"][cs[0][0]]["guard"])
                    gv = is_join_guard(tm[0]["arms"][cs[0][0]]["guard"])
                    got = (lit(cs[1][0]), lit(cs[0][0])) if gv else None
                else:
                    got = None
                want = TERM.get(name)
                f3.examined(("terminator", name), True, {"format": name, "terminator": [repr(x) for x in got] if got else None})
                if want is None:
                    f3.violate(f"terminator/new/{name}", f"format {name} has no documented terminator")
                elif got != want:
                    f3.violate(f"terminator/{name}", f"terminator after a {name} value is {got} (plain, with --join-output), documented {want}")
    rules.append(f3.finish())

    # ---------------- E17.4 no dropped errors in the driver crates
    e4 = Rule("E17.4", "in the command-line and driver crates no Result is discarded (assigned and only dropped): the first error of the filter, of an input or of writing ends the run; the main loop uses try_for_each on both levels", floor=30)
    allowed_drop = re.compile(r"^jaq::funs::repl")
    for crate in ("jaq", "jaq_all"):
        for j in facts.mir(crate):
            if allowed_drop.match(j["def"]) or allowed_drop.match(j.get("root") or ""):
                continue
            b = Body(j)
            reads = set()
            for bb in b.bbs:
                for s in bb["st"]:
                    if s.get("k") == "A":
                        reads.update(rvalue_reads(s["r"]))
                t = bb["t"]
                if t["k"] == "Call":
                    reads.update(x for x in (op_local(a) for a in t["args"]) if x is not None)
                    if "indirect" in t and op_local(t["indirect"]) is not None:
                        reads.add(op_local(t["indirect"]))
                elif t["k"] == "Switch" and op_local(t["o"]) is not None:
                    reads.add(op_local(t["o"]))
            for i, t in b.calls():
                if b.bbs[i].get("cleanup"):
                    continue
                d = t["d"]
                if d.get("pr"):
                    continue
                ty = b.locals[d["l"]]["ty"]
                if not ty.startswith("core::result::Result<"):
                    continue
                used = d["l"] == 0 or d["l"] in reads
                callee = Body.callee(t) or "indirect"
                e4.examined((j["def"], callee, t["sp"]), True)
                if not used:
                    e4.violate(f"dropped/{j['def']}/{callee}", f"`{j['def']}` discards the Result of `{callee}`", where=t["sp"])
    dr = facts.mir_fn("jaq_all::data::run")
    if dr is None:
        e4.missing_anchor("jaq_all::data::run")
    else:
        names = []
        for jj in [dr] + facts.mir_closures_of("jaq_all::data::run"):
            names += [Body.callee(t) or "" for _, t in Body(jj).calls()]
        ntry = sum(1 for c in names if c.endswith("Iterator::try_for_each"))
        nfor = sum(1 for c in names if c.endswith("Iterator::for_each"))
        e4.examined("main-loop", True, {"try_for_each": ntry, "for_each": nfor})
        if ntry < 2 or nfor:
            e4.violate("main-loop", f"the main loop of data::run does not propagate the first error on both levels (try_for_each x{ntry}, for_each x{nfor})", where=dr["sp"])
    # an error of writing an output (or of the filter) is never turned into success
    n_arms = 0
    for crate in ("jaq", "jaq_all"):
        for f_ in facts.hir(crate):
            if f_.get("test") or f_["def"].startswith("jaq::funs::repl"):
                continue
            for mm in find(f_["body"], lambda n: n.get("k") == "Match" and n.get("src") == "Normal"):
                for a_ in mm["arms"]:
                    pat_err = [p_ for p_ in find(a_["pat"], lambda n: n.get("k") in ("TupleStruct", "Path")) if str((p_.get("path") or {}).get("def", "")).endswith("result::Result::Err")]
                    if not pat_err:
                        continue
                    n_arms += 1
                    b_ = strip(a_["body"])
                    gives_ok = b_.get("k") == "Call" and str((strip(b_["f"]).get("path") or {}).get("def", "")).endswith("result::Result::Ok")
                    if gives_ok:
                        e4.violate(f"error-to-ok/{f_['def'].split('::{closure')[0]}", f"`{f_['def']}` maps an `Err` to `Ok` ({'under a condition' if a_.get('guard') is not None else 'always'}): a failed write (e.g. a closed pipe) or filter error no longer ends the run, later outputs are computed and later inputs consumed", where=a_["sp"])
            for n in find(f_["body"], lambda n: n.get("k") == "MethodCall" and n["m"]["name"] in ("or", "or_else", "unwrap_or", "unwrap_or_default", "unwrap_or_else", "ok") and "core::result::Result<" in str(n.get("recv_ty", "")) and "std::io::error::Error" in str(n.get("recv_ty", ""))):
                if n["m"]["name"] in ("or", "or_else") and not find(n["args"], lambda x: x.get("k") == "Path" and str(x["path"].get("def", "")).endswith("Result::Ok")):
                    continue
                e4.violate(f"error-defaulted/{f_['def'].split('::{closure')[0]}", f"`{f_['def']}` replaces an I/O error by a default (`{n['m']['name']}`): the failure does not end the run", where=n["sp"])
    e4.examined("err-arms", True, {"arms_matching_Err_in_the_driver": n_arms})
    rules.append(e4.finish())

    # ---------------- E17.5 outcomes are examined one at a time (shared with C18 W18.8)
    from c18 import rule_no_deferred_results
    rules.append(rule_no_deferred_results(facts, "E17.5").finish())

    # ---------------- U17.7 standard input and file arguments treat UTF-8 alike (shared with C07 T7.5)
    from c07 import rule_utf8_sync
    rules.append(rule_utf8_sync(facts, "U17.7").finish())
    from c14 import rule_stream_error_polled
    rules.append(rule_stream_error_polled(facts, "E17.10").finish())

    # ---------------- P17.8 an explicit input format beats the file extension
    p8 = Rule("P17.8", "`--from` / `-R` / `--raw-input0` take precedence over the format guessed from a file's extension: wherever the driver combines the option with "
              "`Format::determine`, the option is the receiver of the `or`/`or_else`/`unwrap_or*` and the guess is the fall-back", floor=1)
    cli_adt = [a_ for a_ in facts.items("jaq")["adts"] if a_["def"] == "jaq::cli::Cli"]
    cfields = [f_["name"] for f_ in cli_adt[0]["variants"][0]["fields"]] if cli_adt else []
    if "from" not in cfields:
        p8.missing_anchor("field jaq::cli::Cli.from")
    else:
        kf = cfields.index("from")
        det_closures = {j_["def"] for j_ in facts.mir("jaq") if "{closure" in j_["def"] and Body(j_).find_calls(r"^jaq_fmts::Format::determine$")}
        combos = 0
        for crate_, j_ in facts.all_mir():
            if crate_ != "jaq" or j_.get("test") or j_["def"].startswith("jaq::funs::repl") or (j_.get("root") or "").startswith("jaq::funs::repl"):
                continue
            b_ = Body(j_)
            opt_reads = set()
            for bb_ in b_.bbs:
                for s_ in bb_["st"]:
                    if s_.get("k") == "A" and s_["r"].get("k") in ("Use", "Ref"):
                        pl = s_["r"].get("p") or s_["r"]["o"].get("c") or s_["r"]["o"].get("m")
                        if pl and b_.locals[pl["l"]]["ty"].replace("&", "").replace("mut ", "").endswith("jaq::cli::Cli") and [e_ for e_ in (pl.get("pr") or []) if e_ != "*"] == [{"f": kf}]:
                            opt_reads.add(s_["p"]["l"])
            from_l = b_.derived_from(opt_reads) if opt_reads else set()
            det_src = {b_.call_result_local(c_) for c_ in b_.find_calls(r"^jaq_fmts::Format::determine$")}
            det_src |= {s_["p"]["l"] for bb_ in b_.bbs for s_ in bb_["st"] if s_.get("k") == "A" and s_["r"].get("k") == "Agg" and (s_["r"].get("ak") or "")[len("Closure:"):] in det_closures}
            det_l = b_.derived_from(det_src) if det_src else set()
            if not from_l or not det_l:
                continue
            for i_, t_ in b_.calls():
                if not re.search(r"^core::option::Option::<T>::(or|or_else|xor|unwrap_or|unwrap_or_else|map_or|map_or_else|get_or_insert|get_or_insert_with|zip|and|and_then)$", t_.get("fn") or ""):
                    continue
                recv, rest = set(b_.arg_locals(i_, 0)), set(b_.arg_locals(i_)) - set(b_.arg_locals(i_, 0))
                r_from, r_det = bool(recv & from_l) and not (recv & det_l), bool(recv & det_l) and not (recv & from_l)
                o_from, o_det = bool(rest & from_l), bool(rest & det_l)
                if (r_from and o_det) or (r_det and o_from):
                    combos += 1
                    p8.examined((j_["def"], t_["sp"]), True, {"in": j_["def"], "combinator": (t_.get("fn") or "").split("::")[-1], "explicit_option_first": r_from})
                    if r_det:
                        p8.violate("precedence", f"in `{j_['def']}` the format guessed from the file extension is the receiver of `{(t_.get('fn') or '').split('::')[-1]}` and the explicit --from/-R option only the fall-back: `jaq -R . file.json` would parse JSON", where=t_["sp"])
        if not combos:
            p8.missing_anchor("the place where the driver combines Cli.from with Format::determine")
    rules.append(p8.finish())

    # ---------------- N17.9 raw0: no output may contain the terminator
    n9 = Rule("N17.9", "with `--raw-output0` / `--to raw0` a string that contains NUL is rejected whichever kind of string it is: for text strings and for byte strings the arm that "
              "tests for NUL comes before the arm that writes the raw bytes", floor=2)
    vvar = dict(adt_variants(facts, "jaq_json::Val") or [])
    wtabs = []
    for f_ in facts.hir("jaq_fmts"):
        if not f_["def"].startswith("jaq_fmts::write::") or f_.get("test"):
            continue
        for m_ in find(f_["body"], lambda n: n.get("k") == "Match" and n.get("src") == "Normal" and "jaq_json::Val" in n.get("scrut_ty", "") and "jaq_fmts::Format" in n.get("scrut_ty", "")):
            wtabs.append((f_, m_))
    if len(wtabs) != 1 or not vvar:
        n9.missing_anchor(f"the match on (value, format) of the value writer ({len(wtabs)} found)")
    else:
        f_, m_ = wtabs[0]
        for kind in ("TStr", "BStr"):
            v_ = T(C(f"jaq_json::Val::{kind}", *([ANY] * vvar[kind])), C("jaq_fmts::Format::Raw0"))
            cs_ = candidates(m_["arms"], v_)
            guarded = bool(cs_) and cs_[0][1] == "guard" and any(re.search(r"::(contains|find_byte|memchr|find|position|any|iter)$", c_) for c_ in callees(m_["arms"][cs_[0][0]]["guard"]))
            rejects = guarded and (is_err_body(m_["arms"][cs_[0][0]]["body"]))
            n9.examined(kind, True, {"string_kind": kind, "nul_test_before_raw_write": guarded, "rejects": rejects})
            if not (guarded and rejects):
                n9.violate(f"raw0/{kind}", f"a {'text' if kind == 'TStr' else 'byte'} string written with --raw-output0 is not tested for NUL before its bytes are written: the value would read back as two values", where=m_["sp"])
    rules.append(n9.finish())

    # ---------------- N17.11 raw input is split, never trimmed
    n11 = Rule("N17.11", "the dispatch of the readers (`jaq_fmts::read::formats`: raw text, raw0, lines, the per-format parsers) removes at most one trailing separator (`strip_suffix`): "
               "it calls no `trim*` function on the input, which would remove a run of separators or blanks and lose empty trailing records (`a\\0\\0` is `\"a\", \"\"`)", floor=5)
    for body in facts.mir("jaq_fmts"):
        if not body["def"].startswith("jaq_fmts::read::formats::") or body.get("test"):
            continue
        bb_ = Body(body)
        trims = [(i, t) for i, t in bb_.calls() if re.search(r"(^|::)trim(_\w+)?$", re.sub(r"::<[^>]*>$", "", t.get("fn") or ""))]
        n11.examined(("reader-dispatch", body["def"]), True, {"fn": body["def"], "trim_calls": len(trims)})
        for i, t in trims:
            n11.violate(f"trim/{body['def'].split('::{closure')[0]}/{(t.get('fn') or '').rsplit('::', 1)[-1]}", f"`{body['def']}` calls `{t.get('fn')}` on the input: more than the one final separator can be removed (trailing empty records of a raw0 input are lost)", where=t["sp"])
    rules.append(n11.finish())

    # ---------------- I17.6 one input stream
    i6 = Rule("I17.6", "one input stream: the function that builds the run-time data wraps the caller's input iterator in exactly one shared iterator; the main loop iterates "
              "that same object and the data handed to `input`/`inputs` holds that same object (every input is consumed once, by whoever asks first); "
              "the accessor used by `input`/`inputs` returns that field", floor=4)
    runs = [j for c_, j in facts.all_mir() if c_ == "jaq_all" and not j.get("test") and any(
        s_.get("k") == "A" and s_["r"].get("k") == "Agg" and (s_["r"].get("ak") or "") == "Adt:jaq_all::data::Data" for bb_ in j["bbs"] for s_ in bb_["st"])]
    if len(runs) != 1:
        i6.missing_anchor(f"the function that builds jaq_all::data::Data ({len(runs)} found)")
    else:
        b = Body(runs[0])
        argc = runs[0].get("argc") or 0
        fields = [f_["name"] for a_ in facts.items("jaq_all")["adts"] if a_["def"] == "jaq_all::data::Data" for f_ in a_["variants"][0]["fields"]]
        shared = b.find_calls(r"^jaq_std::input::RcIter::<I>::new$")
        # parameters that are iterators of inputs: those whose flow reaches a shared-iterator constructor
        from_param = [c for c in shared if any(set(b.arg_locals(c)) & b.derived_from([p_]) for p_ in range(1, argc + 1))]
        i6.examined("shared-iterators", True, {"shared_iterators_built": len(shared), "fed_by_the_callers_inputs": len(from_param)})
        if len(from_param) != 1:
            i6.violate("shared/count", f"{len(from_param)} shared iterators are built from the caller's inputs (expected exactly one): main loop and `input`/`inputs` would not draw from one stream", where=runs[0]["sp"])
        elif "inputs" not in fields:
            i6.missing_anchor("field Data.inputs")
        else:
            the = b.derived_from([b.call_result_local(from_param[0])])
            k = fields.index("inputs")
            for bb_ in b.bbs:
                for s_ in bb_["st"]:
                    if s_.get("k") == "A" and s_["r"].get("k") == "Agg" and (s_["r"].get("ak") or "") == "Adt:jaq_all::data::Data":
                        ok = op_local(s_["r"]["ops"][k]) in the
                        i6.examined("data.inputs", True, {"data_inputs_is_the_shared_iterator": ok})
                        if not ok:
                            i6.violate("data/inputs", "the data handed to the filter does not hold the shared iterator built from the caller's inputs: `input`/`inputs` would read another stream than the main loop", where=s_.get("sp"))
            loops = [c for c in b.find_calls(r"Iterator::(try_for_each|for_each|try_fold|fold|next)$") if not b.bbs[c].get("cleanup")]
            main = [c for c in loops if set(b.arg_locals(c, 0)) & the]
            i6.examined("main-loop", True, {"main_loop_iterates_the_shared_iterator": bool(main)})
            if not main:
                i6.violate("main-loop", "the main loop does not iterate the shared iterator that `input`/`inputs` draw from: inputs would be delivered twice or out of order", where=runs[0]["sp"])
            others = [c for c in loops if c not in main and any(set(b.arg_locals(c, 0)) & b.derived_from([p_]) for p_ in range(1, argc + 1))]
            if others:
                i6.violate("main-loop/bypass", "the caller's inputs are also iterated directly, bypassing the shared iterator", where=b.bbs[others[0]]["t"]["sp"])
        acc = facts.mir_find(r"^<&'a jaq_all::data::Data<'a> as jaq_std::input::HasInputs<.*>>::inputs$|^<&.*jaq_all::data::Data<.*> as jaq_std::input::HasInputs<.*>>::inputs$", "jaq_all")
        if len(acc) != 1 or "inputs" not in fields:
            i6.missing_anchor("HasInputs::inputs for &Data")
        else:
            k = fields.index("inputs")
            reads = [s_ for bb_ in acc[0]["bbs"] for s_ in bb_["st"] if s_.get("k") == "A" and s_["r"].get("k") in ("Use", "Ref") and {"f": k} in ((s_["r"].get("o", {}).get("c") or s_["r"].get("o", {}).get("m") or s_["r"].get("p") or {}).get("pr") or [])]
            ab = Body(acc[0])
            ok = bool(reads) and 0 in ab.derived_from([reads[0]["p"]["l"]])
            i6.examined("accessor", True, {"accessor_returns_field_inputs": ok})
            if not ok:
                i6.violate("accessor", "the accessor that `input`/`inputs` use does not return the `inputs` field of the run-time data", where=acc[0]["sp"])
    rules.append(i6.finish())

    explanation = ("Finite tables (exit status, option tables against help.txt, terminators) extracted from the typed HIR, a must-pass-through rule for the flush in the value writer (MIR), "
                   "and a no-discarded-Result rule over the driver crates. Not decided: the byte stream itself, which consumer takes which input, colours.")
    return finish("C17", "other", rules, t0, tier, explanation, ["help.txt is the text printed by --help (include_str!)", "std::process::exit terminates with the given code"])
