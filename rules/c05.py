"""C05 — no filter text, argument value or input document can crash jaq (structural clauses)."""
import collections
import json
import os
import re
import time

import panics
import ranges
from common import FIRST_PARTY, Rule, VERIF, finish
from mirutil import Body, op_local
from taint import Taint


def is_repl(d):
    return d.startswith("jaq::funs::repl") or d.startswith("jaq::funs::eval")


# (function, operation): premise under which the raw operation cannot overflow; the premise is checked
EXCEPTIONS = {
    ("jaq_json::skip_take_chars::{closure#0}", "Sub"): "PosUsize(false, c) is only built in Num::as_pos_usize from a negative integer, hence c >= 1",
}


def premise_pos_usize(facts):
    """Constructor sites of PosUsize are inside Num::as_pos_usize only."""
    bad = []
    n = 0
    for c, j in facts.all_mir():
        for bb in j["bbs"]:
            for s in bb["st"]:
                if s.get("k") == "A" and s["r"].get("k") == "Agg" and s["r"]["ak"] == "Adt:jaq_json::num::PosUsize":
                    n += 1
                    if not (j["def"].startswith("jaq_json::num::Num::as_pos_usize")):
                        bad.append(j["def"])
    return n, bad


def pos_flag_false(b, bb):
    """Is block bb reached only through the `false` edge of a switch on the sign flag (field 0) of a `PosUsize`?"""
    flags = set()
    for blk in b.bbs:
        for s_ in blk["st"]:
            if s_.get("k") == "A" and s_["r"].get("k") == "Use":
                pl = (s_["r"]["o"].get("c") or s_["r"]["o"].get("m") or {})
                pr = pl.get("pr") or []
                if "l" in pl and pr and isinstance(pr[-1], dict) and pr[-1].get("f") == 0 and "PosUsize" in b.locals[pl["l"]]["ty"]:
                    flags.add(s_["p"]["l"])
    flags = b.derived_from(flags) if flags else set()
    for i, blk in enumerate(b.bbs):
        t = blk["t"]
        if t["k"] == "Switch" and t.get("oty") == "bool" and op_local(t["o"]) in flags:
            for v, tgt in t["ts"]:
                if v == 0 and b.edge_dominates((i, tgt), bb):
                    return True
    return False


def taint_rules(facts, rid, text, fn_filter, floor_tainted):
    T = Taint(facts, FIRST_PARTY)
    T.solve()
    sinks = T.collect_sinks()
    r = Rule(rid, text, floor=1)
    ntainted = sum(1 for d, m in T.tainted.items() if fn_filter(d) for _ in m)
    if ntainted < floor_tainted:
        r.violate("taint-floor", f"the dataflow found only {ntainted} user-number locals (< {floor_tainted}): sources are no longer recognised (fail closed)")
    npos, bad = premise_pos_usize(facts)
    for s in sinks:
        if not fn_filter(s.fn) or is_repl(s.fn):
            continue
        key = f"{s.kind}/{s.fn}/{s.op}"
        exc = EXCEPTIONS.get((s.fn, s.op))
        if exc is None and s.op == "Sub" and "PosUsize" in str(s.source) and pos_flag_false(T.bodies[s.fn], s.bb):
            # the same exception, recognised by what the code does instead of by where it lives: the magnitude of a
            # from-the-end position (sign flag tested false on every path to the subtraction)
            exc = EXCEPTIONS[("jaq_json::skip_take_chars::{closure#0}", "Sub")]
        ok = s.sanitised
        how = "guarded by a test of the same value" if ok else None
        if not ok and exc:
            if npos >= 1 and not bad:
                ok = True
                how = "exception with checked premise: " + exc
            else:
                r.violate(key + "/premise", f"premise of the exception for `{s.fn}` no longer holds: PosUsize is constructed in {bad or 'no place'}")
        r.examined((s.fn, s.kind, s.op, s.sp), True, {"fn": s.fn, "op": f"{s.kind} {s.op} on {s.ty}", "source": s.source, "at": s.sp, "verdict": how or "UNGUARDED"})
        if not ok:
            what = {"S1": "unchecked integer arithmetic", "S2": "float-to-integer cast not guarded against NaN / out-of-range (NaN becomes 0, out-of-range saturates)" + (f" [{s.detail}]" if s.detail else ""), "S3": "lossy integer cast"}[s.kind]
            r.violate(key, f"{what} `{s.op}` on a user-controlled number ({s.source}) in `{s.fn}`", where=s.sp)
    r.notes.append(f"user-number locals tracked: {ntainted}; sinks examined: {r.instances}; propagation is deliberately conservative (unknown calls return untainted values)")
    return r.finish(), T


def calls_through_closures(facts, body, rx, depth=0, seen=None):
    """Blocks of `body` that call a function matching rx, directly or inside a closure built in this body
    and handed to a call in that block."""
    seen = seen or set()
    out = set(body.find_calls(rx))
    if depth > 3:
        return out
    # closures constructed in this body
    clos = {}
    for i, bb in enumerate(body.bbs):
        for s in bb["st"]:
            if s.get("k") == "A" and s["r"].get("k") == "Agg" and s["r"]["ak"].startswith("Closure:"):
                clos[s["p"]["l"]] = s["r"]["ak"][len("Closure:"):]
    # plain moves/copies of closure values
    alias = {cl: {cl} for cl in clos}
    changed = True
    while changed:
        changed = False
        for bb in body.bbs:
            for s in bb["st"]:
                if s.get("k") == "A" and s["r"].get("k") == "Use" and not s["p"].get("pr"):
                    src = op_local(s["r"]["o"])
                    for cl, al in alias.items():
                        if src in al and s["p"]["l"] not in al:
                            al.add(s["p"]["l"])
                            changed = True
    for i, t in body.calls():
        for l in body.arg_locals(i):
            # the closure local or a plain copy of it
            for cl, cdef in clos.items():
                if l in alias[cl]:
                    if cdef in seen:
                        continue
                    cj = facts.mir_fn(cdef)
                    if cj is None:
                        continue
                    cb = Body(cj)
                    if calls_through_closures(facts, cb, rx, depth + 1, seen | {cdef}):
                        out.add(i)
    return out


def receiver_key(b, bb):
    """Projection of the place whose reference is the receiver (argument 0) of the call in block bb."""
    ls = b.arg_locals(bb, 0)
    if not ls:
        return None
    for blk in b.bbs:
        for s in blk["st"]:
            if s.get("k") == "A" and s["p"]["l"] == ls[0] and s["r"].get("k") == "Ref":
                pr = [e for e in (s["r"]["p"].get("pr") or []) if e != "*"]
                return repr(pr) if pr else None
    return None


PAIRS = [
    ("jaq_core::compile::Compiler::<&'s str, F>::with_label", r"MapVecLen::<S>::push$", r"MapVecLen::<S>::pop$", False),
    ("jaq_core::compile::Compiler::<&'s str, F>::with_vars", r"MapVecLen::<S>::push$", r"MapVecLen::<S>::pop$", True),
    ("jaq_core::compile::Compiler::<&'s str, F>::def", r"Locals::<S>::push_parent$", r"Locals::<S>::pop_parent$", False),
    ("jaq_core::compile::Compiler::<&'s str, F>::module", r"Compiler::<&'s str, F>::open_def$", r"Compiler::<&'s str, F>::close_def$", True),
    ("jaq_core::compile::Compiler::<&'s str, F>::term", r"Compiler::<&'s str, F>::open_def$", r"Compiler::<&'s str, F>::close_def$", True),
    ("jaq_core::load::Loader::<&'s str, P, R>::find", r"alloc::vec::Vec::<T, A>::push$", r"alloc::vec::Vec::<T, A>::pop$", False),
]


def run(facts, tier):
    t0 = time.time()
    rules = []

    r, T = taint_rules(facts, "N5.a", "no unchecked integer arithmetic, unguarded float-to-integer cast or lossy integer cast on a number that comes from a user value (filter argument, input document): every such operation is a checked/saturating form or is control-dependent on a test of that value", lambda d: True, 600)
    rules.append(r)

    # ---- N5.b panic-site inventory
    tab = json.load(open(os.path.join(VERIF, "rules", "tables", "panic_sites.json")))["entries"]
    # The inventory is written per source file (that is where the reasons were reviewed) but evaluated per crate:
    # moving a function to another file or renaming a file is not a new way to panic.
    crate_of = lambda f: f.split("/")[0]
    reviewed = {(e["file"], e["kind"], e["what"]): e for e in tab}
    reviewed_crate = collections.Counter()
    for e in tab:
        reviewed_crate[(crate_of(e["file"]), e["kind"], e["what"])] += e["count"]
    proved, n_asserts = ranges.discharged(facts, FIRST_PARTY, is_repl)
    S = panics.sites(facts, FIRST_PARTY, is_repl, discharged=proved)
    cnt = collections.Counter((a, b, w) for a, b, w, fn, sp in S)
    cnt_crate = collections.Counter((crate_of(a), b, w) for a, b, w, fn, sp in S)
    where = collections.defaultdict(list)
    for a, b, w, fn, sp in S:
        where[(a, b, w)].append((fn, sp))
    nb = Rule("N5.b", "every way first-party code outside the interactive repl can panic (calls to panicking entry points: panic!/assert!/unreachable!, unwrap/expect, indexing and slicing APIs that panic; overflow, division and bounds asserts) belongs to the reviewed inventory tables/panic_sites.json, where each entry carries a discharge class and a reason; counted per crate and kind of site", floor=200)
    for key, n in sorted(cnt.items()):
        e = reviewed.get(key)
        for fn, sp in where[key]:
            nb.examined((key, fn, sp), True)
        if len(nb.samples) < 4 and e:
            nb.samples.append({"file": key[0], "kind": key[1], "what": key[2], "sites": n, "class": e["class"], "reason": e["reason"][:160]})
    for ck, n in sorted(cnt_crate.items()):
        r_ = reviewed_crate.get(ck, 0)
        if n <= r_:
            continue
        # name the files of that crate where more sites are found than were reviewed there
        over = [(k, cnt[k] - (reviewed[k]["count"] if k in reviewed else 0)) for k in sorted(cnt) if (crate_of(k[0]), k[1], k[2]) == ck and cnt[k] > (reviewed[k]["count"] if k in reviewed else 0)]
        k0 = over[0][0]
        fn, sp = where[k0][-1]
        if r_ == 0:
            nb.violate(f"{ck[0]}/{ck[1]}/{ck[2]}", f"unreviewed panic site: `{ck[2]}` ({ck[1]}) in {k0[0]} (function `{fn}`)", where=sp, detail=[f"{f} at {s_}" for f, s_ in where[k0]])
        else:
            nb.violate(f"{ck[0]}/{ck[1]}/{ck[2]}/count", f"{n - r_} new panic site(s) `{ck[2]}` ({ck[1]}) in crate {ck[0]} ({', '.join(k[0] for k, _ in over)}): {n} found, {r_} reviewed", where=sp, detail=[f"{f} at {s_}" for k, _ in over for f, s_ in where[k]])
    cls = collections.Counter()
    for key, n in cnt.items():
        if key in reviewed:
            cls[reviewed[key]["class"]] += n
    nb.notes.append("sites per discharge class: " + json.dumps(cls))
    nb.notes.append(f"interval analysis (ranges.py): {len(proved)} of {n_asserts} assertion sites (overflow, division, bounds) computed unfailing and not inventory matter, e.g. " + "; ".join(f"{k[0].split('::')[-1]} {k[2]}: {w[:70]}" for k, w in sorted(proved.items())[:3]))
    rules.append(nb.finish())

    # ---- P5.c scope pairing
    pc = Rule("P5.c", "compile-time scope bookkeeping is balanced: in each function that opens a scope (variables, labels, definitions, open modules) every push is followed by the matching pop on every non-unwinding path, pops of several scopes run over the reversed sequence", floor=7)
    for fn, prx, qrx, needs_rev in PAIRS:
        j = facts.mir_fn(fn)
        if j is None:
            pc.missing_anchor(fn)
            continue
        b = Body(j)
        P = calls_through_closures(facts, b, prx)
        Q = calls_through_closures(facts, b, qrx)
        # same stack: when the receiver is a field of self, pair pushes and pops of the same field only
        rk = {x: receiver_key(b, x) for x in P | Q}
        qkeys = {rk[q] for q in Q}
        if any(k is not None for k in qkeys):
            P = {x for x in P if rk[x] in qkeys}
        if not P or not Q:
            pc.violate(f"{fn}/missing", f"`{fn}` no longer contains the push/pop pair ({prx} / {qrx}): push sites {len(P)}, pop sites {len(Q)}", where=j["sp"])
            continue
        for p in sorted(P):
            # every path from after the push to a Return passes a pop
            nxt = [t for t, k in b.succ(p, unwind=False)]
            ok = all(b.always_reaches(n, Q) for n in nxt) and not (p in Q and len(Q) == 1)
            pc.examined((fn, b.bbs[p]["t"]["sp"]), True, {"fn": fn, "push_at": b.bbs[p]["t"]["sp"], "pop_on_all_paths": ok})
            if not ok:
                pc.violate(f"{fn}/unbalanced", f"in `{fn}` a scope is pushed ({prx}) but not popped ({qrx}) on every path to return: MapVecLen::pop / close_module would assert at compile time of some filter", where=b.bbs[p]["t"]["sp"])
        if needs_rev:
            revs = b.find_calls(r"core::iter::traits::iterator::Iterator::rev$|DoubleEndedIterator")
            rev_derived = set()
            for rv in revs:
                rev_derived |= b.derived_from([b.call_result_local(rv)])
            okrev = all(set(b.arg_locals(q)) & rev_derived for q in Q)
            pc.examined((fn, "rev"), True, {"fn": fn, "pops_in_reverse_order": okrev})
            if not okrev:
                pc.violate(f"{fn}/order", f"in `{fn}` the scopes are not popped over the reversed sequence (`.rev()` missing): the pop assertions compare against the most recent push", where=j["sp"])
    rules.append(pc.finish())

    # ---- S5.d spans: what the lexer keeps as remaining input is always a slice of the filter text
    sd = Rule("S5.d", "diagnostic spans lie inside the filter text: the lexer's remaining input (from which error locations are taken) is only ever assigned slices of the input, never a string literal (a literal has an address outside the text, and the span computation would underflow)", floor=10)
    DEFAULTING = re.compile(r"^core::(option::Option::<T>|result::Result::<T, E>)::(unwrap_or|map_or|unwrap_or_else|map_or_else|or|unwrap_or_default)$")
    nassign = 0
    for j in facts.mir("jaq_core"):
        if not j["def"].startswith("jaq_core::load::lex::Lexer::"):
            continue
        b = Body(j)
        # locals that (may) hold a string literal: constants of type &str, through moves, aggregates, field
        # projections and the default argument of Option/Result combinators
        lit = {}
        changed = True
        def is_str_const(o):
            k = o.get("k") if isinstance(o, dict) else None
            return bool(k) and k.get("ty", "").replace("'static ", "") in ("&str",) and "txt" in k
        while changed:
            changed = False
            for bb in b.bbs:
                for s in bb["st"]:
                    if s.get("k") != "A":
                        continue
                    r = s["r"]
                    src = None
                    if r["k"] in ("Use", "Cast") and (is_str_const(r["o"]) or op_local(r["o"]) in lit):
                        src = True
                    elif r["k"] == "Agg" and any(is_str_const(o) or op_local(o) in lit for o in r["ops"]):
                        src = True
                    elif r["k"] == "Ref" and r["p"]["l"] in lit:
                        src = True
                    if src and s["p"]["l"] not in lit and not (s["p"].get("pr")):
                        lit[s["p"]["l"]] = s["sp"]
                        changed = True
                t = bb["t"]
                if t["k"] == "Call" and DEFAULTING.search(t.get("fn") or ""):
                    if any(is_str_const(a) or op_local(a) in lit for a in t["args"][1:]) and t["d"]["l"] not in lit:
                        lit[t["d"]["l"]] = t["sp"]
                        changed = True
        for bb in b.bbs:
            for s in bb["st"]:
                if s.get("k") == "A" and s["p"].get("pr") and b.locals[s["p"]["l"]]["ty"].startswith("&mut jaq_core::load::lex::Lexer<"):
                    # assignment through self to a field
                    nassign += 1
                    r = s["r"]
                    bad = (r["k"] in ("Use", "Cast") and (is_str_const(r["o"]) or op_local(r["o"]) in lit))
                    sd.examined((j["def"], s["sp"]), True, {"fn": j["def"], "assigned_at": s["sp"], "from_literal": bool(bad)} if bad or nassign <= 2 else None)
                    if bad:
                        sd.violate(f"{j['def']}/literal-input", f"`{j['def']}` assigns a string literal to the lexer state: a later error at that position has a span outside the filter text and rendering the diagnostic panics", where=s["sp"])
    rules.append(sd.finish())

    explanation = ("Three structural clauses of 'nothing crashes jaq': (a) forward taint dataflow over the MIR of all first-party functions proving numeric discipline on user numbers, "
                   "(b) a reviewed inventory of all panic sites so that any new way to panic is reported, (c) push/pop pairing of compile-time scopes on all paths. "
                   "Not decided: the arguments attached to inventory entries (index safety is argued, not computed), panics inside dependencies, stack/heap exhaustion.")
    return finish("C05", "other", rules, t0, tier, explanation,
                  ["taint propagation stops at unknown calls (under-approximation, listed in taint.py)", "a guard is recognised structurally (branch on a comparison / predicate of the same value), its arithmetic adequacy is not checked",
                   "inventory reasons are reviewed arguments, not proofs"])
