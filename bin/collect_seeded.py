#!/usr/bin/env python3
"""Collect verified seeded changes into /verif/seeded/<id>/ (patch.diff, demo, meta.json) and the behaviour-preserving
patches into /verif/seeded/benign/<id>/, together with the detection results of bin/mutants.sh.

usage: collect_seeded.py <results files...>   (staging directories are fixed below; they live under /tmp while a
session is running -- the collected copies under seeded/ are what is committed)"""
import glob
import json
import os
import re
import shutil
import sys

STAGED = ["/tmp/seed/staged", "/tmp/seed/staged2", "/tmp/seed/staged3"]
BENIGN = sorted(glob.glob("/tmp/benign/staged*"))
OUT = "/verif/seeded"


def parse_results(files):
    det = {}
    for f in files:
        if not os.path.exists(f):
            continue
        for l in open(f):
            if ":" not in l:
                continue
            name, rest = l.strip().split(":", 1)
            d = det.setdefault(name, {})
            for m in re.finditer(r"(C\d+)=exit(\d)\[(.*?)\]", rest):
                d[m.group(1)] = {"exit": int(m.group(2)), "rules": [x for x in m.group(3).split(",") if x]}
            if "PATCH DOES NOT APPLY" in rest:
                d["_error"] = "patch does not apply"
    return det


def main():
    res = sys.argv[1:]
    det = parse_results(res)
    os.makedirs(OUT, exist_ok=True)
    rows = []
    for sd in STAGED:
        for d in sorted(glob.glob(os.path.join(sd, "C*-m*"))):
            name = os.path.basename(d)
            vl = os.path.join(d, "verify.log")
            v = None
            if os.path.exists(vl):
                for l in open(vl, errors="replace"):
                    m = re.match(r"(C\d+) (m\d+): tests\[(.*?)\] demo_with_mutant_exit=(\d+) demo_clean_exit=(\d+)", l)
                    if m:
                        v = {"tests_with_mutant": m.group(3), "demo_exit_with_mutant": int(m.group(4)), "demo_exit_on_clean_tree": int(m.group(5))}
            if not v or v["demo_exit_with_mutant"] == 0 or v["demo_exit_on_clean_tree"] != 0 or " 0 failed" not in v["tests_with_mutant"]:
                print("skip (not verified)", name, v)
                continue
            o = os.path.join(OUT, name)
            shutil.rmtree(o, ignore_errors=True)
            os.makedirs(o)
            for f in os.listdir(d):
                if f in ("verify.log", "checks", "test.log", "test.txt", "build.log") or os.path.isdir(os.path.join(d, f)):
                    continue
                shutil.copy(os.path.join(d, f), o)
            meta = json.load(open(os.path.join(d, "meta.json")))
            meta["id"] = name
            meta["breaks_property"] = name.split("-")[0]
            meta["author"] = "independent sub-agent given only the property text and a scratch worktree"
            if os.path.exists(os.path.join(d, "base")):
                meta["applies_to_commit"] = open(os.path.join(d, "base")).read().strip()
            meta["verified_in_scratch_worktree"] = dict(v, what_was_run=["git apply patch.diff", "cargo build --offline --workspace --exclude jaq-play", "cargo test --workspace --exclude jaq-play --no-fail-fast --offline (all test-result lines summed, doctests included)", "bash demo.sh <worktree> with the change (must fail)", "git checkout -- . ; bash demo.sh <worktree> (must pass)"])
            dd = {k: r for k, r in det.get(name, {}).items() if not k.startswith("_")}
            caught = {c: r["rules"] for c, r in dd.items() if r["exit"] == 1}
            own = name.split("-")[0]
            meta["detection"] = {"checks_run": sorted(dd), "caught_by": caught, "caught_by_own_property_check": own in caught, "missed": not caught,
                                 "how_run": "bin/mutants.sh: patch applied in a scratch worktree of /repo, ./check <Cxx> with JAQ_REPO pointing at it"}
            json.dump(meta, open(os.path.join(o, "meta.json"), "w"), indent=1)
            rows.append((name, meta.get("summary", ""), meta.get("needs_to_manifest", ""), caught))
            print(name, "caught" if caught else "MISSED", caught)
    bo = os.path.join(OUT, "benign")
    os.makedirs(bo, exist_ok=True)
    brow = []
    for sd in BENIGN:
        for d in sorted(glob.glob(os.path.join(sd, "B*-b*"))):
            name = os.path.basename(d)
            o = os.path.join(bo, name)
            shutil.rmtree(o, ignore_errors=True)
            os.makedirs(o)
            for f in ("patch.diff", "meta.json"):
                if os.path.exists(os.path.join(d, f)):
                    shutil.copy(os.path.join(d, f), o)
            meta = json.load(open(os.path.join(o, "meta.json")))
            dd = {k: r for k, r in det.get(name, {}).items() if not k.startswith("_") and k.startswith("C")}
            alarms = {c: r["rules"] for c, r in dd.items() if r["exit"] == 1}
            if os.path.exists(os.path.join(d, "base")):
                # the patch no longer applies to HEAD and was evaluated on an older commit: what that commit raises by itself
                # (defects repaired later: D12, D8b-D8d) is not an alarm on the patch
                BASE_ALARMS = {"C14": {"T14.10", "T14.4", "T14.5"}, "C20": {"R20.6"}, "C03": {"L3.3"}}
                inherited = {c: sorted(set(r) & BASE_ALARMS.get(c, set())) for c, r in alarms.items() if set(r) & BASE_ALARMS.get(c, set())}
                alarms = {c: sorted(set(r) - BASE_ALARMS.get(c, set())) for c, r in alarms.items() if set(r) - BASE_ALARMS.get(c, set())}
                if inherited:
                    meta["alarms_of_the_base_commit_itself"] = inherited
            meta["id"] = name
            meta["author"] = "independent sub-agent asked for a behaviour-preserving change (all 20 property texts given), full test suite passing"
            meta["checks"] = {"run": sorted(dd), "alarms": alarms}
            if os.path.exists(os.path.join(d, "base")):
                meta["applies_to_commit"] = open(os.path.join(d, "base")).read().strip()
            json.dump(meta, open(os.path.join(o, "meta.json"), "w"), indent=1)
            brow.append((name, meta.get("summary", ""), alarms))
    json.dump({"seeded": [{"id": a, "summary": b, "needs": c, "caught_by": d} for a, b, c, d in rows],
               "benign": [{"id": a, "summary": b, "alarms": c} for a, b, c in brow]}, open(os.path.join(OUT, "INDEX.json"), "w"), indent=1)
    print(len(rows), "seeded,", len(brow), "benign")


main()
