#!/usr/bin/env python3
"""Collect verified seeded mutants into /verif/seeded/<id>/ (patch.diff, demo, meta.json)."""
import json, os, re, shutil, sys
staged = "/tmp/seed/staged"
ver = {}
for l in open("/tmp/seed/verify-all.txt"):
    m = re.match(r"(C\d+) (m\d+): tests\[(.*?)\] demo_with_mutant_exit=(\d+) demo_clean_exit=(\d+)", l)
    if m:
        ver[f"{m.group(1)}-{m.group(2)}"] = {"tests_with_mutant": m.group(3), "demo_exit_with_mutant": int(m.group(4)), "demo_exit_on_clean_tree": int(m.group(5))}
det = {}
for l in open("/tmp/seed/results-all.txt"):
    name, rest = l.strip().split(":", 1)
    d = det.setdefault(name, {})
    for m in re.finditer(r"(C\d+)=exit(\d)\[(.*?)\]", rest):
        d[m.group(1)] = {"exit": int(m.group(2)), "rules": [x for x in m.group(3).split(",") if x]}
out = "/verif/seeded"
os.makedirs(out, exist_ok=True)
for name in sorted(os.listdir(staged)):
    v = ver.get(name)
    if not v or v["demo_exit_with_mutant"] == 0 or v["demo_exit_on_clean_tree"] != 0 or " 0 failed" not in v["tests_with_mutant"]:
        print("skip (not verified)", name, v)
        continue
    d = os.path.join(out, name)
    shutil.rmtree(d, ignore_errors=True)
    os.makedirs(d)
    for f in os.listdir(os.path.join(staged, name)):
        if f in ("verify.log", "checks", "test.log", "test.txt") or os.path.isdir(os.path.join(staged, name, f)):
            continue
        shutil.copy(os.path.join(staged, name, f), d)
    meta = json.load(open(os.path.join(staged, name, "meta.json")))
    meta["id"] = name
    meta["breaks_property"] = name.split("-")[0]
    meta["author"] = "independent sub-agent given only the property text and a scratch worktree"
    meta["verified_in_scratch_worktree"] = dict(v, what_was_run=["git apply patch.diff", "cargo build --offline --workspace --exclude jaq-play", "cargo test --workspace --exclude jaq-play --no-fail-fast --offline (all test-result lines summed, doctests included)", "bash demo.sh <worktree> with the mutant (must fail)", "git checkout -- . ; bash demo.sh <worktree> (must pass)"])
    dd = det.get(name, {})
    caught = {c: r["rules"] for c, r in dd.items() if r["exit"] == 1}
    meta["detection"] = {"checks_run": sorted(dd), "caught_by": caught, "missed": not caught, "how_run": "bin/mutants.sh: patch applied in a scratch worktree of /repo, ./check <Cxx> with JAQ_REPO pointing at it"}
    json.dump(meta, open(os.path.join(d, "meta.json"), "w"), indent=1)
    print(name, "caught" if caught else "MISSED", caught)
