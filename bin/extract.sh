#!/bin/bash
# usage: extract.sh <repo> <outdir> [cargo check args...]
# Runs `cargo +nightly check` on <repo> with the jaqlint driver injected and writes facts to <outdir>.
set -euo pipefail
REPO=$1; OUT=$2; shift 2
HERE=$(cd "$(dirname "$0")/.." && pwd)
DRV=$HERE/driver/target/release/jaqlint
[ -x "$DRV" ] || { echo "driver not built: $DRV" >&2; exit 2; }
SYSROOT=$(rustc +nightly --print sysroot)
T=$(mktemp -d /tmp/jaqlint-target.XXXXXX)
trap 'rm -rf "$T"' EXIT
mkdir -p "$OUT"
cd "$REPO"
if [ $# -eq 0 ]; then set -- --workspace --exclude jaq-play; fi
LD_LIBRARY_PATH=$SYSROOT/lib \
RUSTFLAGS="${JAQLINT_RUSTFLAGS:--Zmir-opt-level=0 -Awarnings -Coverflow-checks=on -Cdebug-assertions=on -Zalways-encode-mir}" \
RUSTC_WRAPPER=$DRV JAQLINT_OUT=$OUT CARGO_TARGET_DIR=$T CARGO_NET_OFFLINE=true \
cargo +nightly check --offline "$@" 2>"$OUT/cargo.log" || { tail -50 "$OUT/cargo.log" >&2; exit 3; }
grep -E "^jaqlint:" "$OUT/cargo.log" || true
