#!/bin/bash
# usage: try_mutant.sh <patch.diff> <Cxx> [<Cyy> ...]   -- apply to /repo, run the checks, undo
P=$1; shift
cd /repo || exit 2
if [ -n "$(git status --porcelain --untracked-files=no)" ]; then echo "/repo not clean"; exit 2; fi
git apply "$P" || { echo "patch does not apply"; exit 2; }
for c in "$@"; do
  VERIF_EVIDENCE_DIR=/tmp/try-mutant-evidence /verif/check $c > /tmp/try_mutant.$c.out 2>&1; rc=$?
  echo "== $c exit=$rc: $(grep -c '^VIOLATION' /tmp/try_mutant.$c.out) violations"
  grep -A1 '^VIOLATION' /tmp/try_mutant.$c.out | grep -v '^--' | grep -v '^VIOLATION' | cut -c1-300 | head -8
done
git -C /repo checkout -- .
