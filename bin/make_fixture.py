#!/usr/bin/env python3
"""make_fixture.py <id> <patch.diff> <comma-separated def-path regexes> : apply the patch in a scratch
worktree of /repo, extract facts with the driver, and store the HIR/MIR bodies whose def path (or root)
matches one of the regexes as /verif/fixtures/<id>.json. These are the positive controls: recorded facts
of code that is known to violate a rule; the rule must flag them on every run."""
import json, os, re, subprocess, sys, tempfile, shutil
sys.path.insert(0, os.path.join(os.path.dirname(os.path.abspath(__file__)), "..", "rules"))
import common

fid, patches, rxs = sys.argv[1], [os.path.abspath(x) for x in sys.argv[2].split(",")], [re.compile(x) for x in sys.argv[3].split(",")]
W = "/tmp/fixrepo"
subprocess.run(["git", "-C", "/repo", "worktree", "remove", "--force", W], capture_output=True)
subprocess.run(["git", "-C", "/repo", "worktree", "prune"])
subprocess.check_call(["git", "-C", "/repo", "worktree", "add", "-q", "--detach", W, "HEAD"])
try:
    for patch in patches:
        r = subprocess.run(["git", "-C", W, "apply", "--3way", patch], capture_output=True, text=True)
        if r.returncode != 0:
            subprocess.check_call(["git", "-C", W, "apply", patch])
    d = common.facts_dir(repo=W)
    out = {"id": fid, "patches": [os.path.relpath(p, common.VERIF) if p.startswith(common.VERIF) else os.path.basename(p) for p in patches], "hir": {}, "mir": {}}
    n = 0
    for c in common.FIRST_PARTY:
        kind = "bin" if c == "jaq" else "lib"
        for k in ("hir", "mir"):
            bodies = json.load(open(os.path.join(d, f"{c}.{kind}.{k}.json")))
            sel = [b for b in bodies if any(rx.search(b["def"]) or rx.search(b.get("root") or "") for rx in rxs)]
            if sel:
                out[k][c] = sel
                n += len(sel)
    # hashes of the clean versions of the replaced bodies (see common.control_is_stale)
    clean = common.Facts(common.facts_dir())
    base = {"hir": {}, "mir": {}}
    for k in ("hir", "mir"):
        for c, bodies in out[k].items():
            cur = {b["def"]: b for b in (clean.hir(c) if k == "hir" else clean.mir(c))}
            for b in bodies:
                if b["def"] in cur:
                    base[k].setdefault(c, {})[b["def"]] = common.body_hash(cur[b["def"]])
    out["baseline"] = base
    os.makedirs(os.path.join(common.VERIF, "fixtures"), exist_ok=True)
    json.dump(out, open(os.path.join(common.VERIF, "fixtures", fid + ".json"), "w"))
    print(fid, "bodies:", n, {k: {c: len(v) for c, v in out[k].items()} for k in ("hir", "mir")})
finally:
    subprocess.run(["git", "-C", "/repo", "worktree", "remove", "--force", W], capture_output=True)
