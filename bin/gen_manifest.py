#!/usr/bin/env python3
"""Generate MANIFEST.json from the per-property descriptions below (single source of truth)."""
import json
import os

HERE = os.path.dirname(os.path.dirname(os.path.abspath(__file__)))
CHECKS = {
 "C02": ("other", "HIR decision tables + sibling agreement", "§4 C02", "Agreement of the three evaluators (run/paths/update) on which terms are paths, branch mapping and native twins, as tables over the 28 term kinds; positions computed by each arm are value-level and not decided."),
 "C03": ("other", "forcing-site discipline over the mono call graph + HIR operand-laziness tables + CFG guards", "§4 C03", "Construction-time code forces a stream only at reviewed sites; single-output fast paths guarded by size_hint; later operands built lazily; writer flushes per output. Over-forcing inside next() is not decided."),
 "C04": ("other", "HIR decision tables (tail positions, call classification, trampoline) + CFG growth guards", "§4 C04", "The four decision tables that implement tail-call optimisation and the two do-not-regrow guards; constant space itself is a run-time quantity."),
 "C05": ("other", "taint dataflow on MIR + interval analysis on MIR + reviewed panic-site inventory + CFG pairing", "§4 C05", "Numeric discipline on user numbers (decided), every panic site reviewed (new sites reported), scope push/pop pairing. Index safety arguments are reviewed, not computed."),
 "C06": ("proof", "whole-program monomorphic call-graph reachability (sound over-approximation)", "§4 C06", "No file/network/process API reachable from any native filter, the interpreter or a codec in the shipped binary incl. all dependencies; time-zone database reads excepted exactly as stated."),
 "C07": ("other", "HIR constant tables of the JSON writer/reader", "§4 C07", "Mandatory RFC 8259 escapes, kind-specific escapes, decimals kept as text, insertion-ordered map type. Round-trip equality itself is value-level."),
 "C08": ("other", "HIR variant-pair tables + contradiction rule + mono who-may-call", "§4 C08", "Ord/PartialEq/Hash of Val and Num are mutually consistent tables; float hash normalises what float compare merges; sorting of values is stable."),
 "C09": ("other", "taint dataflow on MIR + HIR result-kind tables", "§4 C09", "Machine-integer arithmetic on value payloads is checked with big-integer fallback; result-kind tables of the operators; representation independence of integer consumers."),
 "C10": ("other", "HIR sibling agreement (readers/updaters, decoders, look-ups) + who-may-call on order-perturbing map operations", "§4 C10 / §9.5", "Clause only: readers and updaters of a container kind position through the same helper, text strings count with one character decoder, `.[k]`/`has`/destructuring share one look-up, key order is disturbed only by the deleting update. Clipping, negative bounds and splice contents are value-level and not decided."),
 "C13": ("other", "HIR constant tables + one-decoder rule", "§4 C13", "HTML entity table aligned and used swapped for decoding, @sh quoting constant, @csv/@tsv bound to the checked row writers."),
 "C14": ("other", "HIR reader/writer table agreement", "§4 C14", "First-party reader and writer tables agree (TSV/CSV escapes inverse, CBOR kinds, XML keys, YAML special literals). Full round trips are value-level."),
 "C15": ("other", "HIR decision tables with constant folding", "§4 C15", "Precedence chain, associativity, token table, `as` right-extension, climbing comparisons equal the manual's table."),
 "C16": ("other", "CFG dominance / control dependence / value flow on MIR", "§4 C16", "Cycle guard, load-once guard, absolute-path refusal, search order, extension rule, expand-then-join, one look-up for modules and data, per-module visibility reset."),
 "C17": ("other", "HIR tables against help.txt and the manual + CFG must-pass-through", "§4 C17", "Exit-status table, option tables, terminators, flush after every output, no discarded Result in the driver crates."),
 "C18": ("other", "CFG dominance, must-follow and value flow on MIR + mono who-may-call", "§4 C18", "Rename dominated by the success edge of the run writing to that temp file; temp file in the target's directory with RAII deletion; permissions read before and restored after; sole writer of file-system state."),
 "C19": ("proof", "type-checker witnesses (compile-pass / compile_fail with twins) + type walk + item facts", "§4 C19", "Filter/Lut/Native/Val(sync) are Send+Sync; term table deeply immutable; no first-party shared mutable state, no hand-written unsafe, no hash-order iteration; ambient inputs are those the property sets aside."),
 "C20": ("other", "taint dataflow on MIR + who-may-call", "§4 C20", "User epochs/fields scaled and cast only through checked or guarded operations; jiff results propagated, never clamped; raw constructors confined to conversion kernels. Calendar correctness is value-level."),
}
NA = {
 "C01": "equality of output sequences for all programs x inputs against a definitional semantics is functional correctness of compiler+interpreter; no necessary structural clause in reach that is also robust (binder bookkeeping is a relation between two recursive traversals with symbolic lengths)",
 "C11": "each obligation equates two run-time output sequences for all argument streams and counts; off-by-one in limit/skip/range is invisible to shape rules",
 "C12": "partition/stability/extremum/round-trip invariants are relations over all input collections; the single shape fact (stable sorting by Val's order) is enforced under C08 and not claimed here",
}
TRUST = {
 "proof": "rustc's MIR, type checker and instance resolution; the API family table for body-less std/libc leaves; dependencies as compiled from Cargo.lock sources; soundness of dependencies' unsafe code",
 "other": "rustc's typed HIR/MIR as dumped by the driver; frozen spec tables transcribed from the property statement and the manual; reviewed inventories (reasons are arguments, not proofs); deliberate under-approximations are listed in each evidence file",
}


def main():
    built = {p for p in CHECKS if os.path.exists(os.path.join(HERE, "rules", p.lower() + ".py"))}
    checks = []
    for p in sorted(built):
        lvl, tech, ref, text = CHECKS[p]
        checks.append({
            "property_id": p, "quick_cmd": f"./check {p} --tier quick", "thorough_cmd": f"./check {p} --tier thorough",
            "evidence_file": f"/verif/evidence/{p}.json", "replay_cmd_template": "cat {path}", "engine": "jaqlint+rules",
            "level_claimed": {"category": lvl, "text": text, "design_ref": ref}, "level_note": TRUST[lvl], "technique": "static analysis: " + tech,
        })
    na = [{"property_id": p, "reason": r} for p, r in sorted(NA.items())]
    for p in sorted(set(CHECKS) - built):
        na.append({"property_id": p, "reason": "static check designed (DESIGN.md) but not built yet; not claimed"})
    m = {
        "version": 1,
        "setup_cmd": "cd /verif/driver && CARGO_NET_OFFLINE=true cargo +nightly build --release --offline",
        "hooks": {"guard": "jaq_verif", "enable": "none: every check reads the unmodified sources through a rustc driver (RUSTC_WRAPPER) and type-level witness crates; no source hooks exist",
                  "baseline_off_cmd": "cd /repo && (cargo nextest run --workspace --no-fail-fast --offline --test-threads 8 || cargo test --workspace --no-fail-fast --offline)",
                  "source_commits": [], "add_only": True},
        "engines": [
            {"name": "jaqlint", "path": "driver/", "serves_properties": sorted(built), "kind_free_text": "rustc_private driver injected with RUSTC_WRAPPER: dumps typed HIR, MIR with resolved callees, item facts and a whole-program monomorphic call graph as JSON"},
            {"name": "MONO", "path": "rules/mono.py", "serves_properties": ["C03", "C06", "C08", "C18", "C19"], "kind_free_text": "reachability over the monomorphic call graph (indirect calls by erased signature, virtual calls by unsizing sites)"},
            {"name": "TAINT", "path": "rules/taint.py", "serves_properties": ["C05", "C09", "C20"], "kind_free_text": "forward taint dataflow on MIR with structural guard recognition"},
            {"name": "CFG", "path": "rules/mirutil.py", "serves_properties": ["C03", "C04", "C05", "C10", "C14", "C16", "C17", "C18"], "kind_free_text": "dominance, must-follow, control dependence and value flow on MIR"},
            {"name": "TABLES", "path": "rules/hirtab.py", "serves_properties": ["C02", "C04", "C07", "C08", "C09", "C10", "C13", "C14", "C15", "C17"], "kind_free_text": "finite decision tables from match expressions of the typed HIR (pattern semantics, constant folding)"},
            {"name": "RANGE", "path": "rules/ranges.py", "serves_properties": ["C05"], "kind_free_text": "interval analysis (non-relational abstract interpretation with dominating-guard refinement) on MIR: discharges overflow/division/bounds assertion sites that cannot fail"},
            {"name": "WITNESS", "path": "witness/", "serves_properties": ["C19"], "kind_free_text": "compile-pass and compile_fail doc-tests decided by the type checker"},
        ],
        "checks": checks,
        "not_applicable": na,
        "notes": "Technique family: static analysis only. Every check re-extracts facts from /repo's current working tree (cache keyed by a hash of the tree). Known findings: known_findings.json (9 defects found and repaired with fix: commits, none open). Seeded mutants and which rule catches them: DESIGN.md §9 and seeded/.",
    }
    json.dump(m, open(os.path.join(HERE, "MANIFEST.json"), "w"), indent=1)
    print("checks:", [c["property_id"] for c in checks], "n/a:", [x["property_id"] for x in na])


main()
