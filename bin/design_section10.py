#!/usr/bin/env python3
"""Regenerate DESIGN.md §10 (seeded changes and which rule catches them) from seeded/INDEX.json."""
import json, os
HERE = os.path.dirname(os.path.dirname(os.path.abspath(__file__)))
idx = json.load(open(os.path.join(HERE, "seeded", "INDEX.json")))
REASONS = {
 'C03-m2': "`range` raises the increment error before yielding the element: ordering of two effects inside one `next`",
 'C05-m1': "lexer diagnostic truncates to the first byte: same panic site as before (index on str), char-boundary safety is argued in the inventory, not computed",
 'C05-m3': "big-integer parser no longer strips `+` while the JSON lexer still accepts it: two cooperating sites, the `unwrap` is an inventory entry 'by construction'",
 'C14-m3': "CSV reader end-of-input test ignores the quote flag: value-level state of the field reader",
 'C15-m2': "lexer: comment continuation: the hand-written lexer is outside the table rules",
 'C16-m1': "imported-variable index filtered per module: binder arithmetic (C01-like)",
 'C17-m3': "raw0 file reader strips all trailing NULs: library call semantics (`trim_end_with` vs `strip_suffix`)",
 'C20-m2': "`fromdate` fractional test `> 0` on a signed sub-second part: calendar value semantics",
 'C02-m4': "`?` of the last path part applied to every part: which tuple component is used at which recursion level",
 'C04-m5': "`until` rewritten as direct recursion in defs.jq: jq-level definition, resource behaviour",
 'C10-m4': "negative slice bound below -len not clipped: arithmetic inside the position helper (declared undecided in §9.5)",
 'C13-m4': "`join` redefined in defs.jq: jq-level definition",
 'C13-m5': "`explode` drops bytes of a truncated multi-byte sequence: iterator state of the decoder",
 'C14-m4': "YAML key printer rebuilt with default options (loses `sep_space`): option value flow",
 'C15-m5': "empty constructor recognised by comparing source text: trivia handling of the parser",
 'C16-m4': "`unconcat` flattens left-nested commas head-first: recursion direction over a term",
 'C17-m4': "read error at a value boundary taken for end of input: lexer error state",
 'C20-m5': "`strptime` ignores a parsed `%s`: calendar library semantics",
 'C14-m9': "YAML reader no longer accepts `+` in an exponent: number grammar of the reader",
 'C05-m7': "statement order in `bytes_splice` (range taken after the buffer grew): value-level",
 'C13-m8': "regex byte-to-character offset guard compares a character index with a byte offset: value-level (panics, so also C05)",
 'C16-m7': "a new cache of data files keyed by the written name: added state whose key is wrong",
 'C16-m8': "a repeated include keeps its first position in the shadowing order: list manipulation of the loader",
 'C16-m9': "`?` inside a loop returns from the whole function where the closure version skipped one entry: control flow of a metadata scan",
 'C20-m7': "`todate` redefined through strftime in defs.jq: jq-level definition",
 'C20-m9': "`fromdate` parses a civil date-time first and drops a numeric offset: calendar library semantics",
 'C02-m7': "`foreach .. |= u` applies the update leaf-to-root instead of root-to-leaf: order of two recursive calls in the fold updater",
 'C02-m8': "`paths(p)` redefined in defs.jq (root no longer excluded): jq-level definition",
 'C02-m9': "`recurse` aliased to `..` in defs.jq (changes the update order): jq-level definition",
 'C08-m9': "`unique` redefined in defs.jq (drops null): jq-level definition",
 'C09-m8': "object `*` overwrites instead of merging when the right sub-object is empty: a guard on a value",
 'C07-m9': "a signed-NaN probe in front of the Infinity probes: correct first-party code; the effect comes from hifijson's `strip_prefix` consuming input on a failed probe in streaming lexers (third-party semantics)",
 'C19-m8': "`--run-tests` harness reuses a caller-owned output buffer emptied only on the success path: state handed down through a `&mut` parameter, not shared state in the sense of S19.x",
 'C05-m8': "a swapped test lets an unparsable text into `Num::Dec`: the invariant of the decimal text is not computed",
}
rows = []
for e in idx['seeded']:
    own = e['id'].split('-')[0]; cb = e['caught_by']
    order = sorted(cb, key=lambda c: (c != own, c))
    caught = "; ".join(f"{c} {'/'.join(cb[c])}" for c in order) or "**missed**"
    s = e['summary'].replace('|', '\\|').replace('\n', ' ')
    rows.append(f"| {e['id']} | {s[:170]}{'…' if len(s) > 170 else ''} | {caught} |")
own = sum(1 for e in idx['seeded'] if e['id'].split('-')[0] in e['caught_by']); anyc = sum(1 for e in idx['seeded'] if e['caught_by'])
missed = [e['id'] for e in idx['seeded'] if not e['caught_by']]
other = [e['id'] for e in idx['seeded'] if e['caught_by'] and e['id'].split('-')[0] not in e['caught_by']]
txt = "## 10. Seeded changes and which rule catches them\n\n"
txt += ("Each change was written by a fresh sub‑agent that saw only the text of one property and its own\n"
"scratch worktree (nothing from /verif) — for ids `-m4` and later additionally one‑line summaries of what earlier\n"
"testers had submitted, so as not to repeat them — and was kept only after I re‑ran, in that worktree: the build,\n"
"the full test suite (382 passed incl. 2 doctests, 0 failed, with the change), the demonstration with\n"
"the change (fails) and on the clean tree (passes). They live in `seeded/<id>/` (patch.diff, demo.sh,\n"
"meta.json with what was run, the commit the patch applies to when that is not HEAD, and the detection result).\n"
"Detection = `bin/mutants.sh`: the patch applied in a scratch worktree and the checks run against it with the\n"
"final rules (all 17 checks for every change in the matrix run; own property plus every check that had fired in the\n"
"confirmation run); the table lists every check that fired (own property first).\n\n"
f"**{len(idx['seeded'])} changes: {own} are caught by the check of the property they break, {anyc} by some check, {len(missed)} by none.**\n\n")
txt += "| id | change | caught by |\n|----|--------|-----------|\n" + "\n".join(rows) + "\n\n"
txt += "Caught only by the check of another property: " + ", ".join(other) + ".\n\n"
txt += "Not caught, and why (all are value‑level under the terms of §1):\n\n" + "\n".join(f"* **{m}** — {REASONS.get(m, 'value-level')}" for m in missed) + "\n\n"
txt += "Some checks fire on changes aimed at other properties (e.g. C05 N5.b on C08‑m3, C03 L3.1 on C06‑m2): the change really does add a panic site / a forcing site there; no check fired on a seeded change for a reason unrelated to the change.\n\n"
p = os.path.join(HERE, "DESIGN.md")
s = open(p).read()
a = s.index('## 10. Seeded changes and which rule catches them')
b = s.index('## 11. Behaviour-preserving changes')
open(p, 'w').write(s[:a] + txt + s[b:])
print(len(idx['seeded']), own, anyc, missed)
