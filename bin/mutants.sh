#!/bin/bash
# usage: mutants.sh <dir-with-mutants> <out-file>  -- for each <dir>/<Cxx>-m<k>/patch.diff: apply in a scratch worktree of
# /repo, run the check(s) of that property (and extra ones listed in <dir>/<name>/checks), record exit codes.
D=$1; OUT=$2
W=${MUTW:-/tmp/mutrepo}
rm -rf $W; git -C /repo worktree prune; git -C /repo worktree add -q --detach $W HEAD || exit 2
for m in $D/*/; do
  name=$(basename $m); prop=${name%%-*}
  base=$(cat $m/base 2>/dev/null || git -C /repo rev-parse HEAD)   # a mutant written against an older commit is evaluated there
  git -C $W checkout -q --detach $base; git -C $W reset -q --hard $base; git -C $W clean -fdq
  if ! git -C $W apply --3way $m/patch.diff 2>/dev/null && ! git -C $W apply $m/patch.diff 2>/dev/null; then echo "$name: PATCH DOES NOT APPLY" >> $OUT; continue; fi
  checks="$prop $(cat $m/checks 2>/dev/null)"
  line="$name:"
  for c in $checks; do
    [ -f /verif/rules/$(echo $c | tr A-Z a-z).py ] || { line="$line $c=nocheck"; continue; }
    JAQ_REPO=$W VERIF_EVIDENCE_DIR=/tmp/mut-evidence-$(basename $W) /verif/check $c > /tmp/mut-$name-$c.out 2>&1; rc=$?
    v=$(grep -A1 '^VIOLATION' /tmp/mut-$name-$c.out | grep '^  rule' | sed 's/^  rule \([A-Za-z0-9.]*\):.*/\1/' | sort -u | tr '\n' ',')
    line="$line $c=exit$rc[$v]"
  done
  echo "$line" >> $OUT
done
git -C /repo worktree remove --force $W
