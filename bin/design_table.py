#!/usr/bin/env python3
"""Print the markdown tables of DESIGN.md §10/§11 from seeded/INDEX.json (written by collect_seeded.py)."""
import json, os
idx = json.load(open(os.path.join(os.path.dirname(os.path.abspath(__file__)), "..", "seeded", "INDEX.json")))
print("| id | change (what it needs to manifest) | caught by |")
print("|----|-------------------------------------|-----------|")
for e in idx["seeded"]:
    own = e["id"].split("-")[0]
    cb = e["caught_by"]
    order = sorted(cb, key=lambda c: (c != own, c))
    caught = "; ".join(f"{c} {'/'.join(cb[c])}" for c in order) or "**missed**"
    s = e["summary"].replace("|", "\\|").replace("\n", " ")
    n = (e.get("needs") or "").replace("|", "\\|").replace("\n", " ")
    print(f"| {e['id']} | {s[:230]}{'…' if len(s) > 230 else ''} ({n[:140]}{'…' if len(n) > 140 else ''}) | {caught} |")
print()
print("| patch | change | alarms |")
print("|-------|--------|--------|")
for e in idx["benign"]:
    al = "; ".join(f"{c} {'/'.join(r)}" for c, r in sorted(e["alarms"].items())) or "none"
    s = e["summary"].replace("|", "\\|").replace("\n", " ")
    print(f"| {e['id']} | {s[:200]}{'…' if len(s) > 200 else ''} | {al} |")
