//! Pass H: serialise the type-checked HIR of every body of a first-party crate to JSON.
//! The Rust side only serialises; every rule is evaluated in Python over this JSON.
use crate::json::J;
use crate::obj;
use rustc_hir as hir;
use rustc_hir::def::{DefKind, Res};
use rustc_hir::def_id::{DefId, LocalDefId};
use rustc_middle::ty::print::PrintTraitRefExt;
use rustc_middle::ty::{self, TyCtxt, TypeckResults};
use rustc_span::Span;

pub fn span_str(tcx: TyCtxt<'_>, sp: Span) -> String {
    let sm = tcx.sess.source_map();
    let sp = sp.source_callsite();
    let lo = sm.lookup_char_pos(sp.lo());
    let name = format!("{}", lo.file.name.prefer_local_unconditionally());
    format!("{}:{}:{}", name, lo.line, lo.col.0 + 1)
}

/// (is from expansion, description of the expansion)
pub fn expn_str(sp: Span) -> Option<String> {
    if !sp.from_expansion() {
        return None;
    }
    let data = sp.ctxt().outer_expn_data();
    Some(match data.kind {
        rustc_span::ExpnKind::Macro(_, name) => {
            let krate = data.macro_def_id.map_or("?".to_string(), |d| {
                rustc_middle::ty::tls::with(|tcx| tcx.crate_name(d.krate).to_string())
            });
            format!("macro:{name}@{krate}")
        }
        rustc_span::ExpnKind::Desugaring(k) => format!("desugar:{k:?}"),
        rustc_span::ExpnKind::AstPass(k) => format!("astpass:{k:?}"),
        rustc_span::ExpnKind::Root => "root".into(),
    })
}

/// Names of all macros in the expansion backtrace of a span, outermost last (e.g. "assert>debug_assert").
pub fn expn_chain(sp: Span) -> Option<String> {
    if !sp.from_expansion() {
        return None;
    }
    let names: Vec<String> = sp
        .macro_backtrace()
        .filter_map(|d| match d.kind {
            rustc_span::ExpnKind::Macro(_, name) => Some(name.to_string()),
            _ => None,
        })
        .collect();
    if names.len() > 1 {
        Some(names.join(">"))
    } else {
        None
    }
}

pub fn trunc(mut s: String, n: usize) -> String {
    if s.len() > n {
        let mut cut = n;
        while !s.is_char_boundary(cut) {
            cut -= 1;
        }
        s.truncate(cut);
        s.push('…');
    }
    s
}

pub fn ty_str<'tcx>(ty: ty::Ty<'tcx>) -> String {
    trunc(ty::print::with_no_trimmed_paths!(format!("{ty}")), 400)
}

pub fn def_str(tcx: TyCtxt<'_>, d: DefId) -> String {
    ty::print::with_no_trimmed_paths!(tcx.def_path_str(d))
}

pub struct Dumper<'tcx> {
    pub tcx: TyCtxt<'tcx>,
    owner: LocalDefId,
    tr: &'tcx TypeckResults<'tcx>,
}

impl<'tcx> Dumper<'tcx> {
    fn sp(&self, sp: Span) -> J {
        J::s(span_str(self.tcx, sp))
    }

    fn res(&self, res: Res) -> J {
        match res {
            Res::Def(kind, id) => {
                let mut path = def_str(self.tcx, id);
                let mut extra = J::Null;
                if let DefKind::Ctor(of, ck) = kind {
                    // report the variant / struct path itself
                    let parent = self.tcx.parent(id);
                    path = def_str(self.tcx, parent);
                    extra = J::s(format!("{of:?}/{ck:?}"));
                }
                obj! {"def": J::s(path), "dk": J::s(format!("{kind:?}")), "ctor": extra}
            }
            Res::Local(id) => {
                obj! {"local": J::s(self.tcx.hir_name(id).to_string()), "id": J::Int(id.local_id.as_u32() as i128)}
            }
            Res::SelfCtor(d) => obj! {"selfctor": J::s(def_str(self.tcx, d))},
            Res::SelfTyAlias { alias_to, .. } => obj! {"selfty": J::s(def_str(self.tcx, alias_to))},
            Res::SelfTyParam { trait_ } => obj! {"selfparam": J::s(def_str(self.tcx, trait_))},
            Res::PrimTy(p) => obj! {"prim": J::s(format!("{p:?}"))},
            other => obj! {"other": J::s(format!("{other:?}"))},
        }
    }

    fn qpath(&self, q: &hir::QPath<'tcx>, id: hir::HirId) -> J {
        let res = self.tr.qpath_res(q, id);
        let mut j = self.res(res);
        // generic args and trait-method resolution
        if let Res::Def(DefKind::AssocFn | DefKind::Fn | DefKind::AssocConst { .. }, did) = res {
            if let Some(args) = self.tr.node_args_opt(id) {
                self.add_resolution(&mut j, did, args);
            }
        }
        j
    }

    fn add_resolution(&self, j: &mut J, did: DefId, args: ty::GenericArgsRef<'tcx>) {
        let J::Obj(fields) = j else { return };
        let gargs: Vec<J> = args.iter().map(|a| J::s(trunc(ty::print::with_no_trimmed_paths!(format!("{a}")), 300))).collect();
        fields.push(("gargs", J::Arr(gargs)));
        if matches!(self.tcx.def_kind(did), DefKind::AssocFn | DefKind::Fn) {
            let env = ty::TypingEnv::post_analysis(self.tcx, self.owner);
            let args = self.tcx.erase_and_anonymize_regions(args);
            if let Ok(Some(inst)) = ty::Instance::try_resolve(self.tcx, env, did, args) {
                let rd = inst.def_id();
                if rd != did {
                    fields.push(("res", J::s(def_str(self.tcx, rd))));
                }
            }
        }
    }

    fn lit(&self, l: &hir::Lit, negated: bool) -> J {
        use rustc_ast::LitKind::*;
        let v = match &l.node {
            Str(s, _) => obj! {"str": J::s(s.as_str())},
            ByteStr(b, _) | CStr(b, _) => {
                obj! {"bytes": J::Arr(b.as_byte_str().iter().map(|x| J::Int(*x as i128)).collect())}
            }
            Byte(b) => obj! {"byte": J::Int(*b as i128)},
            Char(c) => obj! {"char": J::s(c.to_string())},
            Int(n, _) => {
                let v = n.get() as i128;
                obj! {"int": J::Int(if negated { -v } else { v })}
            }
            Float(s, _) => obj! {"float": J::s(format!("{}{}", if negated { "-" } else { "" }, s.as_str()))},
            Bool(b) => obj! {"bool": J::Bool(*b)},
            Err(_) => obj! {"err": J::Bool(true)},
        };
        v
    }

    pub fn pat(&self, p: &hir::Pat<'tcx>) -> J {
        use hir::PatKind::*;
        let dd = |d: hir::DotDotPos| d.as_opt_usize().map_or(J::Null, |u| J::Int(u as i128));
        match &p.kind {
            Missing => obj! {"k": J::s("Missing")},
            Wild => obj! {"k": J::s("Wild")},
            Never => obj! {"k": J::s("Never")},
            Binding(mode, id, ident, sub) => obj! {
                "k": J::s("Bind"), "name": J::s(ident.name.as_str()),
                "id": J::Int(id.local_id.as_u32() as i128),
                "mode": J::s(format!("{mode:?}")),
                "ty": J::s(ty_str(self.tr.pat_ty(p))),
                "sub": J::opt(sub.map(|s| self.pat(s)))
            },
            Struct(q, fields, rest) => obj! {
                "k": J::s("Struct"), "path": self.qpath(q, p.hir_id),
                "fields": J::Arr(fields.iter().map(|f| obj!{"name": J::s(f.ident.name.as_str()), "pat": self.pat(f.pat)}).collect()),
                "rest": J::Bool(rest.is_some())
            },
            TupleStruct(q, pats, d) => obj! {
                "k": J::s("TupleStruct"), "path": self.qpath(q, p.hir_id),
                "pats": J::Arr(pats.iter().map(|x| self.pat(x)).collect()), "dd": dd(*d)
            },
            Or(pats) => obj! {"k": J::s("Or"), "pats": J::Arr(pats.iter().map(|x| self.pat(x)).collect())},
            Tuple(pats, d) => obj! {"k": J::s("Tuple"), "pats": J::Arr(pats.iter().map(|x| self.pat(x)).collect()), "dd": dd(*d)},
            Box(x) => obj! {"k": J::s("Box"), "pat": self.pat(x)},
            Deref(x) => obj! {"k": J::s("Deref"), "pat": self.pat(x)},
            Ref(x, _, m) => obj! {"k": J::s("Ref"), "pat": self.pat(x), "mut": J::Bool(m.is_mut())},
            Expr(e) => self.pat_expr(e),
            Guard(x, g) => obj! {"k": J::s("Guard"), "pat": self.pat(x), "guard": self.expr(g)},
            Range(lo, hi, end) => obj! {
                "k": J::s("Range"),
                "lo": J::opt(lo.map(|e| self.pat_expr(e))), "hi": J::opt(hi.map(|e| self.pat_expr(e))),
                "end": J::s(format!("{end:?}"))
            },
            Slice(a, m, b) => obj! {
                "k": J::s("Slice"),
                "before": J::Arr(a.iter().map(|x| self.pat(x)).collect()),
                "mid": J::opt(m.map(|x| self.pat(x))),
                "after": J::Arr(b.iter().map(|x| self.pat(x)).collect())
            },
            Err(_) => obj! {"k": J::s("Err")},
        }
    }

    fn pat_expr(&self, e: &hir::PatExpr<'tcx>) -> J {
        match &e.kind {
            hir::PatExprKind::Lit { lit, negated } => obj! {"k": J::s("Lit"), "lit": self.lit(lit, *negated)},
            hir::PatExprKind::Path(q) => obj! {"k": J::s("Path"), "path": self.qpath(q, e.hir_id)},
        }
    }

    fn block(&self, b: &hir::Block<'tcx>) -> J {
        let mut stmts = Vec::new();
        for s in b.stmts {
            match &s.kind {
                hir::StmtKind::Let(l) => stmts.push(obj! {
                    "k": J::s("Let"), "sp": self.sp(s.span), "pat": self.pat(l.pat),
                    "init": J::opt(l.init.map(|e| self.expr(e))),
                    "els": J::opt(l.els.map(|b| self.block(b)))
                }),
                hir::StmtKind::Item(_) => {}
                hir::StmtKind::Expr(e) => stmts.push(obj! {"k": J::s("Expr"), "e": self.expr(e)}),
                hir::StmtKind::Semi(e) => stmts.push(obj! {"k": J::s("Semi"), "e": self.expr(e)}),
            }
        }
        obj! {"k": J::s("Block"), "sp": self.sp(b.span), "stmts": J::Arr(stmts), "expr": J::opt(b.expr.map(|e| self.expr(e))),
              "unsafe": match b.rules { hir::BlockCheckMode::UnsafeBlock(src) => J::s(format!("{src:?}")), _ => J::Null }}
    }

    pub fn expr(&self, e: &hir::Expr<'tcx>) -> J {
        use hir::ExprKind::*;
        let exprs = |xs: &[hir::Expr<'tcx>]| J::Arr(xs.iter().map(|x| self.expr(x)).collect());
        let mut j = match &e.kind {
            ConstBlock(c) => {
                let body = self.tcx.hir_body(c.body);
                obj! {"k": J::s("ConstBlock"), "body": self.expr(body.value)}
            }
            Array(xs) => obj! {"k": J::s("Array"), "xs": exprs(xs)},
            Call(f, args) => obj! {"k": J::s("Call"), "f": self.expr(f), "args": exprs(args)},
            MethodCall(seg, recv, args, _) => {
                let mut callee = obj! {"name": J::s(seg.ident.name.as_str())};
                if let Some(did) = self.tr.type_dependent_def_id(e.hir_id) {
                    if let J::Obj(f) = &mut callee {
                        f.push(("def", J::s(def_str(self.tcx, did))));
                    }
                    let args = self.tr.node_args(e.hir_id);
                    self.add_resolution(&mut callee, did, args);
                }
                obj! {"k": J::s("MethodCall"), "m": callee,
                      "recv": self.expr(recv), "recv_ty": J::s(ty_str(self.tr.expr_ty_adjusted(recv))),
                      "args": exprs(args)}
            }
            Use(x, _) => obj! {"k": J::s("Use"), "e": self.expr(x)},
            Tup(xs) => obj! {"k": J::s("Tup"), "xs": exprs(xs)},
            Binary(op, l, r) => {
                let mut callee = J::Null;
                if let Some(did) = self.tr.type_dependent_def_id(e.hir_id) {
                    callee = J::s(def_str(self.tcx, did));
                }
                obj! {"k": J::s("Binary"), "op": J::s(op.node.as_str()), "l": self.expr(l), "r": self.expr(r), "overloaded": callee}
            }
            Unary(op, x) => {
                let mut callee = J::Null;
                if let Some(did) = self.tr.type_dependent_def_id(e.hir_id) {
                    callee = J::s(def_str(self.tcx, did));
                }
                obj! {"k": J::s("Unary"), "op": J::s(op.as_str()), "e": self.expr(x), "overloaded": callee}
            }
            Lit(l) => obj! {"k": J::s("Lit"), "lit": self.lit(l, false)},
            Cast(x, _) => obj! {"k": J::s("Cast"), "e": self.expr(x), "from": J::s(ty_str(self.tr.expr_ty(x)))},
            Type(x, _) => self.expr(x),
            DropTemps(x) => self.expr(x),
            Let(l) => obj! {"k": J::s("LetExpr"), "pat": self.pat(l.pat), "init": self.expr(l.init)},
            If(c, t, f) => obj! {"k": J::s("If"), "c": self.expr(c), "t": self.expr(t), "f": J::opt(f.map(|x| self.expr(x)))},
            Loop(b, _, src, _) => obj! {"k": J::s("Loop"), "src": J::s(format!("{src:?}")), "body": self.block(b)},
            Match(s, arms, src) => obj! {
                "k": J::s("Match"), "src": J::s(format!("{src:?}")),
                "scrut": self.expr(s), "scrut_ty": J::s(ty_str(self.tr.expr_ty(s))),
                "arms": J::Arr(arms.iter().map(|a| obj!{
                    "sp": self.sp(a.span), "pat": self.pat(a.pat),
                    "guard": J::opt(a.guard.map(|g| self.expr(g))), "body": self.expr(a.body)
                }).collect())
            },
            Closure(c) => {
                let body = self.tcx.hir_body(c.body);
                obj! {"k": J::s("Closure"), "def": J::s(def_str(self.tcx, c.def_id.to_def_id())),
                      "move": J::Bool(matches!(c.capture_clause, hir::CaptureBy::Value{..})),
                      "params": J::Arr(body.params.iter().map(|p| self.pat(p.pat)).collect()),
                      "body": self.expr(body.value)}
            }
            Block(b, _) => self.block(b),
            Assign(l, r, _) => obj! {"k": J::s("Assign"), "l": self.expr(l), "r": self.expr(r)},
            AssignOp(op, l, r) => {
                let mut callee = J::Null;
                if let Some(did) = self.tr.type_dependent_def_id(e.hir_id) {
                    callee = J::s(def_str(self.tcx, did));
                }
                obj! {"k": J::s("AssignOp"), "op": J::s(op.node.as_str()), "l": self.expr(l), "r": self.expr(r), "overloaded": callee}
            }
            Field(x, ident) => obj! {"k": J::s("Field"), "e": self.expr(x), "name": J::s(ident.name.as_str())},
            Index(x, i, _) => obj! {"k": J::s("Index"), "e": self.expr(x), "i": self.expr(i), "base_ty": J::s(ty_str(self.tr.expr_ty_adjusted(x)))},
            Path(q) => obj! {"k": J::s("Path"), "path": self.qpath(q, e.hir_id)},
            AddrOf(_, m, x) => obj! {"k": J::s("AddrOf"), "mut": J::Bool(m.is_mut()), "e": self.expr(x)},
            Break(d, x) => obj! {"k": J::s("Break"), "label": J::opt(d.label.map(|l| J::s(l.ident.name.as_str()))), "e": J::opt(x.map(|x| self.expr(x)))},
            Continue(_) => obj! {"k": J::s("Continue")},
            Ret(x) => obj! {"k": J::s("Ret"), "e": J::opt(x.map(|x| self.expr(x)))},
            Become(x) => obj! {"k": J::s("Become"), "e": self.expr(x)},
            InlineAsm(_) => obj! {"k": J::s("InlineAsm")},
            OffsetOf(..) => obj! {"k": J::s("OffsetOf")},
            Struct(q, fields, tail) => obj! {
                "k": J::s("Struct"), "path": self.qpath(q, e.hir_id),
                "fields": J::Arr(fields.iter().map(|f| obj!{"name": J::s(f.ident.name.as_str()), "e": self.expr(f.expr)}).collect()),
                "base": match tail { hir::StructTailExpr::Base(b) => self.expr(b), _ => J::Null }
            },
            Repeat(x, _) => obj! {"k": J::s("Repeat"), "e": self.expr(x)},
            Yield(x, _) => obj! {"k": J::s("Yield"), "e": self.expr(x)},
            UnsafeBinderCast(_, x, _) => self.expr(x),
            Err(_) => obj! {"k": J::s("Err")},
        };
        if let J::Obj(f) = &mut j {
            if !f.iter().any(|(k, _)| *k == "sp") {
                f.push(("sp", self.sp(e.span)));
            }
            if !f.iter().any(|(k, _)| *k == "ty") {
                f.push(("ty", J::s(ty_str(self.tr.expr_ty(e)))));
            }
            if let Some(x) = expn_str(e.span) {
                if !f.iter().any(|(k, _)| *k == "exp") {
                    f.push(("exp", J::s(x)));
                }
            }
            let adj = self.tr.expr_adjustments(e);
            if !adj.is_empty() {
                let mut v = Vec::new();
                for a in adj {
                    use ty::adjustment::Adjust;
                    match &a.kind {
                        Adjust::Deref(ty::adjustment::DerefAdjustKind::Overloaded(_)) => v.push(J::s("OverloadedDeref")),
                        Adjust::Pointer(p) => v.push(J::s(format!("{p:?}"))),
                        _ => {}
                    }
                }
                if !v.is_empty() {
                    f.push(("adj", J::Arr(v)));
                    f.push(("adj_ty", J::s(ty_str(self.tr.expr_ty_adjusted(e)))));
                }
            }
        }
        j
    }
}

fn impl_info(tcx: TyCtxt<'_>, def: LocalDefId) -> (J, J) {
    // (trait implemented, self type) if `def` is an associated item of an impl
    let did = def.to_def_id();
    if let Some(assoc) = tcx.opt_associated_item(did) {
        let container = assoc.container_id(tcx);
        if matches!(tcx.def_kind(container), DefKind::Impl { .. }) {
            let self_ty = tcx.type_of(container).instantiate_identity().skip_norm_wip();
            let tr = if matches!(tcx.def_kind(container), DefKind::Impl { of_trait: true }) {
                let t = tcx.impl_trait_ref(container).instantiate_identity().skip_norm_wip();
                J::s(ty::print::with_no_trimmed_paths!(format!("{}", t.print_only_trait_path())))
            } else {
                J::Null
            };
            return (tr, J::s(ty_str(self_ty)));
        }
        if matches!(tcx.def_kind(container), DefKind::Trait) {
            return (J::s(format!("trait:{}", def_str(tcx, container))), J::Null);
        }
    }
    (J::Null, J::Null)
}

pub fn dump_bodies(tcx: TyCtxt<'_>) -> J {
    let mut out = Vec::new();
    for owner in tcx.hir_body_owners() {
        let kind = tcx.def_kind(owner);
        if matches!(kind, DefKind::Closure | DefKind::InlineConst | DefKind::AnonConst) {
            continue;
        }
        let Some(body) = tcx.hir_maybe_body_owned_by(owner) else { continue };
        let tr = tcx.typeck(owner);
        if tr.tainted_by_errors.is_some() {
            continue;
        }
        let d = Dumper { tcx, owner, tr };
        let (tr_path, self_ty) = impl_info(tcx, owner);
        let span = tcx.def_span(owner);
        let sig = if matches!(kind, DefKind::Fn | DefKind::AssocFn) {
            J::s(trunc(ty::print::with_no_trimmed_paths!(format!("{}", tcx.fn_sig(owner).instantiate_identity().skip_norm_wip())), 600))
        } else {
            J::Null
        };
        let attrs_test = tcx.hir_attrs(tcx.local_def_id_to_hir_id(owner)).iter().any(|a| a.has_name(rustc_span::sym::test) || a.has_name(rustc_span::sym::rustc_test_marker));
        out.push(obj! {
            "def": J::s(def_str(tcx, owner.to_def_id())),
            "kind": J::s(format!("{kind:?}")),
            "sp": J::s(span_str(tcx, span)),
            "exp": J::opt(expn_str(span).map(J::s)),
            "trait": tr_path, "self_ty": self_ty, "sig": sig,
            "test": J::Bool(attrs_test),
            "params": J::Arr(body.params.iter().map(|p| d.pat(p.pat)).collect()),
            "body": d.expr(body.value)
        });
    }
    J::Arr(out)
}
