//! Minimal JSON value + writer (no external crates are available to a rustc_private driver).
use std::fmt::Write;

#[derive(Clone, Debug)]
pub enum J {
    Null,
    Bool(bool),
    Int(i128),
    Str(String),
    Arr(Vec<J>),
    Obj(Vec<(&'static str, J)>),
}

impl J {
    pub fn s(x: impl Into<String>) -> J {
        J::Str(x.into())
    }
    pub fn opt(x: Option<J>) -> J {
        x.unwrap_or(J::Null)
    }
    pub fn write(&self, out: &mut String) {
        match self {
            J::Null => out.push_str("null"),
            J::Bool(b) => out.push_str(if *b { "true" } else { "false" }),
            J::Int(i) => {
                // keep inside the double-safe range as number, else as string
                if i.unsigned_abs() < (1u128 << 53) {
                    let _ = write!(out, "{i}");
                } else {
                    let _ = write!(out, "\"{i}\"");
                }
            }
            J::Str(s) => write_str(s, out),
            J::Arr(a) => {
                out.push('[');
                for (i, x) in a.iter().enumerate() {
                    if i > 0 {
                        out.push(',');
                    }
                    x.write(out);
                }
                out.push(']');
            }
            J::Obj(o) => {
                out.push('{');
                let mut first = true;
                for (k, v) in o.iter() {
                    if matches!(v, J::Null) {
                        continue;
                    }
                    if !first {
                        out.push(',');
                    }
                    first = false;
                    write_str(k, out);
                    out.push(':');
                    v.write(out);
                }
                out.push('}');
            }
        }
    }
    pub fn to_string(&self) -> String {
        let mut s = String::new();
        self.write(&mut s);
        s
    }
}

fn write_str(s: &str, out: &mut String) {
    out.push('"');
    for c in s.chars() {
        match c {
            '"' => out.push_str("\\\""),
            '\\' => out.push_str("\\\\"),
            '\n' => out.push_str("\\n"),
            '\r' => out.push_str("\\r"),
            '\t' => out.push_str("\\t"),
            c if (c as u32) < 0x20 => {
                let _ = write!(out, "\\u{:04x}", c as u32);
            }
            c => out.push(c),
        }
    }
    out.push('"');
}

#[macro_export]
macro_rules! obj {
    ($($k:literal : $v:expr),* $(,)?) => {
        $crate::json::J::Obj(vec![$(($k, $v)),*])
    };
}
