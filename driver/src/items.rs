//! Item-level facts: ADT field tables (transitively, also for external ADTs), statics,
//! thread-locals, crate-level lint attributes, unsafe blocks, impl tables.
use crate::hir_dump::{def_str, expn_str, span_str, trunc, ty_str};
use crate::json::J;
use crate::obj;
use rustc_hir as hir;
use rustc_hir::def::DefKind;
use rustc_hir::def_id::DefId;
use rustc_middle::ty::print::PrintTraitRefExt;
use rustc_middle::ty::{self, Ty, TyCtxt, TypeVisitableExt};
use std::collections::{HashMap, VecDeque};

/// Flatten a type into the list of things it mentions.
fn mentions<'tcx>(tcx: TyCtxt<'tcx>, ty: Ty<'tcx>, out: &mut Vec<J>, adts: &mut Vec<DefId>) {
    let mut walker = ty.walk();
    while let Some(arg) = walker.next() {
        let Some(t) = arg.as_type() else { continue };
        if matches!(t.kind(), ty::FnPtr(..) | ty::FnDef(..)) {
            // a function pointer holds no data: do not descend into its signature
            walker.skip_current_subtree();
        }
        match t.kind() {
            ty::Adt(def, _) => {
                out.push(obj! {"adt": J::s(def_str(tcx, def.did()))});
                adts.push(def.did());
            }
            ty::RawPtr(..) => out.push(obj! {"raw": J::s(ty_str(t))}),
            ty::FnPtr(..) => out.push(obj! {"fnptr": J::s(ty_str(t))}),
            ty::Dynamic(..) => out.push(obj! {"dyn": J::s(ty_str(t))}),
            ty::Param(p) => out.push(obj! {"param": J::s(p.name.to_string())}),
            ty::Alias(..) => out.push(obj! {"alias": J::s(ty_str(t))}),
            ty::Closure(d, _) => out.push(obj! {"closure": J::s(def_str(tcx, *d))}),
            ty::Foreign(d) => out.push(obj! {"foreign": J::s(def_str(tcx, *d))}),
            _ => {}
        }
    }
}

pub fn adt_table(tcx: TyCtxt<'_>) -> J {
    let mut queue: VecDeque<DefId> = VecDeque::new();
    let mut seen: HashMap<DefId, ()> = HashMap::new();
    for id in tcx.hir_free_items() {
        let item = tcx.hir_item(id);
        if matches!(item.kind, hir::ItemKind::Struct(..) | hir::ItemKind::Enum(..) | hir::ItemKind::Union(..)) {
            queue.push_back(item.owner_id.to_def_id());
        }
    }
    let mut out = Vec::new();
    while let Some(did) = queue.pop_front() {
        if seen.insert(did, ()).is_some() {
            continue;
        }
        let adt = tcx.adt_def(did);
        let mut variants = Vec::new();
        for v in adt.variants() {
            let mut fields = Vec::new();
            for f in &v.fields {
                let fty = tcx.type_of(f.did).instantiate_identity().skip_norm_wip();
                let mut m = Vec::new();
                let mut adts = Vec::new();
                mentions(tcx, fty, &mut m, &mut adts);
                for a in adts {
                    if !seen.contains_key(&a) {
                        queue.push_back(a);
                    }
                }
                fields.push(obj! {"name": J::s(f.name.to_string()), "ty": J::s(ty_str(fty)), "mentions": J::Arr(m)});
            }
            variants.push(obj! {"name": J::s(v.name.to_string()), "fields": J::Arr(fields)});
        }
        out.push(obj! {
            "def": J::s(def_str(tcx, did)),
            "crate": J::s(tcx.crate_name(did.krate).to_string()),
            "local": J::Bool(did.is_local()),
            "kind": J::s(format!("{:?}", adt.adt_kind())),
            "variants": J::Arr(variants)
        });
    }
    J::Arr(out)
}

pub fn statics(tcx: TyCtxt<'_>) -> J {
    let mut out = Vec::new();
    for id in tcx.hir_free_items() {
        let item = tcx.hir_item(id);
        let did = item.owner_id.to_def_id();
        match item.kind {
            hir::ItemKind::Static(m, ..) => {
                let ty = tcx.type_of(did).instantiate_identity().skip_norm_wip();
                let env = ty::TypingEnv::post_analysis(tcx, did);
                let freeze = ty.is_freeze(tcx, env);
                let attrs = tcx.codegen_fn_attrs(did);
                let tls = attrs.flags.contains(rustc_middle::middle::codegen_fn_attrs::CodegenFnAttrFlags::THREAD_LOCAL);
                out.push(obj! {
                    "def": J::s(def_str(tcx, did)), "mut": J::Bool(m.is_mut()),
                    "ty": J::s(ty_str(ty)), "freeze": J::Bool(freeze), "thread_local": J::Bool(tls),
                    "sp": J::s(span_str(tcx, item.span)), "exp": J::opt(expn_str(item.span).map(J::s))
                });
            }
            hir::ItemKind::Const(..) => {
                let ty = tcx.type_of(did).instantiate_identity().skip_norm_wip();
                if ty.has_non_region_param() {
                    continue;
                }
                let env = ty::TypingEnv::post_analysis(tcx, did);
                let is_tls = ty_str(ty).contains("thread::local::LocalKey");
                if !ty.is_freeze(tcx, env) || is_tls {
                    out.push(obj! {
                        "def": J::s(def_str(tcx, did)), "const_nonfreeze": J::Bool(!is_tls), "thread_local": J::Bool(is_tls),
                        "ty": J::s(ty_str(ty)), "sp": J::s(span_str(tcx, item.span)),
                        "exp": J::opt(expn_str(item.span).map(J::s))
                    });
                }
            }
            _ => {}
        }
    }
    J::Arr(out)
}

struct UnsafeFinder<'tcx> {
    tcx: TyCtxt<'tcx>,
    out: Vec<J>,
}

impl<'tcx> hir::intravisit::Visitor<'tcx> for UnsafeFinder<'tcx> {
    type NestedFilter = rustc_middle::hir::nested_filter::All;
    fn maybe_tcx(&mut self) -> TyCtxt<'tcx> {
        self.tcx
    }
    fn visit_block(&mut self, b: &'tcx hir::Block<'tcx>) {
        if let hir::BlockCheckMode::UnsafeBlock(src) = b.rules {
            let owner = self.tcx.hir_enclosing_body_owner(b.hir_id);
            self.out.push(obj! {
                "kind": J::s("block"), "src": J::s(format!("{src:?}")),
                "in": J::s(def_str(self.tcx, owner.to_def_id())),
                "sp": J::s(span_str(self.tcx, b.span)),
                "exp": J::opt(expn_str(b.span).map(J::s))
            });
        }
        hir::intravisit::walk_block(self, b);
    }
    fn visit_item(&mut self, i: &'tcx hir::Item<'tcx>) {
        match &i.kind {
            hir::ItemKind::Impl(imp) => {
                if let Some(tr) = imp.of_trait {
                    if matches!(tr.safety, hir::Safety::Unsafe) {
                        self.out.push(obj! {
                            "kind": J::s("unsafe_impl"), "in": J::s(def_str(self.tcx, i.owner_id.to_def_id())),
                            "sp": J::s(span_str(self.tcx, i.span)), "exp": J::opt(expn_str(i.span).map(J::s))
                        });
                    }
                }
            }
            hir::ItemKind::Fn { sig, .. } => {
                if sig.header.is_unsafe() {
                    self.out.push(obj! {
                        "kind": J::s("unsafe_fn"), "in": J::s(def_str(self.tcx, i.owner_id.to_def_id())),
                        "sp": J::s(span_str(self.tcx, i.span)), "exp": J::opt(expn_str(i.span).map(J::s))
                    });
                }
            }
            hir::ItemKind::ForeignMod { .. } => {
                self.out.push(obj! {
                    "kind": J::s("extern_block"), "in": J::s(def_str(self.tcx, i.owner_id.to_def_id())),
                    "sp": J::s(span_str(self.tcx, i.span)), "exp": J::opt(expn_str(i.span).map(J::s))
                });
            }
            _ => {}
        }
        hir::intravisit::walk_item(self, i);
    }
}

pub fn unsafe_sites(tcx: TyCtxt<'_>) -> J {
    let mut v = UnsafeFinder { tcx, out: Vec::new() };
    tcx.hir_walk_toplevel_module(&mut v);
    J::Arr(v.out)
}

pub fn crate_attrs(tcx: TyCtxt<'_>) -> J {
    // lint level of `unsafe_code` at the crate root
    let root = hir::CRATE_HIR_ID;
    let store = rustc_lint::unerased_lint_store(tcx.sess);
    let ids = store.find_lints("unsafe_code").unwrap_or_default();
    let Some(id) = ids.first() else {
        return obj! {"unsafe_code_level": J::s("unknown")};
    };
    let lvl = tcx.shallow_lint_levels_on(root.owner).lint_level_id_at_node(tcx, *id, root);
    let mut attrs = Vec::new();
    for a in tcx.hir_krate_attrs() {
        attrs.push(J::s(trunc(format!("{a:?}"), 200)));
    }
    obj! {
        "unsafe_code_level": J::s(format!("{:?}", lvl.level)),
        "attrs_n": J::Int(attrs.len() as i128)
    }
}

/// Trait impls in this crate: (trait, self type, list of method def paths)
pub fn impls(tcx: TyCtxt<'_>) -> J {
    let mut out = Vec::new();
    for id in tcx.hir_free_items() {
        let item = tcx.hir_item(id);
        if let hir::ItemKind::Impl(imp) = &item.kind {
            let did = item.owner_id.to_def_id();
            let self_ty = tcx.type_of(did).instantiate_identity().skip_norm_wip();
            let tr = if imp.of_trait.is_some() {
                let t = tcx.impl_trait_ref(did).instantiate_identity().skip_norm_wip();
                J::s(ty::print::with_no_trimmed_paths!(format!("{}", t.print_only_trait_path())))
            } else {
                J::Null
            };
            let items: Vec<J> = tcx
                .associated_items(did)
                .in_definition_order()
                .map(|a| obj! {"name": J::s(a.name().to_string()), "def": J::s(def_str(tcx, a.def_id)), "kind": J::s(format!("{:?}", tcx.def_kind(a.def_id)))})
                .collect();
            out.push(obj! {"trait": tr, "self_ty": J::s(ty_str(self_ty)), "sp": J::s(span_str(tcx, item.span)), "items": J::Arr(items)});
        }
    }
    J::Arr(out)
}

/// Type aliases (e.g. `jaq_json::Map`) resolved.
pub fn aliases(tcx: TyCtxt<'_>) -> J {
    let mut out = Vec::new();
    for id in tcx.hir_free_items() {
        let item = tcx.hir_item(id);
        if let hir::ItemKind::TyAlias(..) = item.kind {
            let did = item.owner_id.to_def_id();
            if tcx.def_kind(did) != DefKind::TyAlias {
                continue;
            }
            let ty = tcx.type_of(did).instantiate_identity().skip_norm_wip();
            out.push(obj! {"def": J::s(def_str(tcx, did)), "ty": J::s(ty_str(ty))});
        }
    }
    J::Arr(out)
}
