//! jaqlint: a rustc_private driver that dumps facts about the jaq workspace as JSON.
//! Injected with RUSTC_WRAPPER under `cargo +nightly check`; it behaves exactly like
//! rustc for every crate and additionally writes fact files for the first-party crates.
#![feature(rustc_private)]
#![allow(clippy::all)]

extern crate rustc_abi;
extern crate rustc_ast;
extern crate rustc_data_structures;
extern crate rustc_driver;
extern crate rustc_hir;
extern crate rustc_index;
extern crate rustc_interface;
extern crate rustc_lint;
extern crate rustc_middle;
extern crate rustc_public;
extern crate rustc_session;
extern crate rustc_span;

mod hir_dump;
mod items;
mod json;
mod mir_dump;
mod mono;

use rustc_driver::{Callbacks, Compilation};
use rustc_interface::interface::Compiler;
use rustc_middle::ty::TyCtxt;
use std::path::PathBuf;

struct Cb {
    crate_name: String,
    out: PathBuf,
    mono: bool,
}

fn write_file(out: &PathBuf, name: &str, j: &json::J) {
    let p = out.join(name);
    let tmp = out.join(format!("{name}.tmp{}", std::process::id()));
    std::fs::write(&tmp, j.to_string()).expect("jaqlint: cannot write fact file");
    std::fs::rename(&tmp, &p).expect("jaqlint: cannot rename fact file");
}

impl Callbacks for Cb {
    fn after_analysis<'tcx>(&mut self, _c: &Compiler, tcx: TyCtxt<'tcx>) -> Compilation {
        if tcx.dcx().has_errors().is_some() {
            return Compilation::Continue;
        }
        use rustc_middle::ty::print as p;
        p::with_resolve_crate_name!(p::with_no_trimmed_paths!(p::with_no_visible_paths!(self.passes(tcx))));
        Compilation::Continue
    }
}

impl Cb {
    fn passes<'tcx>(&mut self, tcx: TyCtxt<'tcx>) {
        let t0 = std::time::Instant::now();
        let kind = if tcx.entry_fn(()).is_some() { "bin" } else { "lib" };
        let base = format!("{}.{}", self.crate_name, kind);
        let hir = hir_dump::dump_bodies(tcx);
        write_file(&self.out, &format!("{base}.hir.json"), &hir);
        let mir = mir_dump::dump_mir(tcx);
        write_file(&self.out, &format!("{base}.mir.json"), &mir);
        let items = obj! {
            "crate": json::J::s(self.crate_name.clone()),
            "adts": items::adt_table(tcx),
            "statics": items::statics(tcx),
            "unsafe": items::unsafe_sites(tcx),
            "attrs": items::crate_attrs(tcx),
            "impls": items::impls(tcx),
            "aliases": items::aliases(tcx)
        };
        write_file(&self.out, &format!("{base}.items.json"), &items);
        if self.mono && kind == "bin" {
            let m = mono::run(tcx);
            write_file(&self.out, &format!("{base}.mono.json"), &m);
        }
        eprintln!("jaqlint: {} facts written in {:?}", base, t0.elapsed());
    }
}

struct Plain;
impl Callbacks for Plain {}

fn main() {
    let mut args: Vec<String> = std::env::args().collect();
    // RUSTC_WRAPPER / RUSTC_WORKSPACE_WRAPPER pass the path of the real rustc as argv[1]
    if args.len() > 1 {
        let a1 = std::path::Path::new(&args[1]);
        if a1.file_stem().map_or(false, |s| s == "rustc") {
            args.remove(1);
        }
    }
    let crate_name = args
        .iter()
        .position(|a| a == "--crate-name")
        .and_then(|i| args.get(i + 1))
        .cloned()
        .unwrap_or_default();
    let out = std::env::var_os("JAQLINT_OUT").map(PathBuf::from);
    let crates = std::env::var("JAQLINT_CRATES")
        .unwrap_or_else(|_| "jaq_core,jaq_std,jaq_json,jaq_fmts,jaq_all,jaq".into());
    let mono_crates = std::env::var("JAQLINT_MONO").unwrap_or_else(|_| "jaq".into());
    let is_build_script = crate_name.starts_with("build_script_");
    match out {
        Some(out) if !is_build_script && crates.split(',').any(|c| c == crate_name) => {
            let mono = mono_crates.split(',').any(|c| c == crate_name);
            let mut cb = Cb { crate_name, out, mono };
            rustc_driver::run_compiler(&args, &mut cb);
        }
        _ => rustc_driver::run_compiler(&args, &mut Plain),
    }
}
