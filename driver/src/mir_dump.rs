//! Pass P: serialise the (polymorphic) MIR of every body of a first-party crate to JSON,
//! with resolved callees. Dominators, dataflow etc. are computed in Python.
use crate::hir_dump::{def_str, expn_chain, expn_str, span_str, trunc, ty_str};
use crate::json::J;
use crate::obj;
use rustc_hir::def::DefKind;
use rustc_hir::def_id::{DefId, LocalDefId};
use rustc_middle::mir::*;
use rustc_middle::ty::{self, TyCtxt};

struct M<'tcx> {
    tcx: TyCtxt<'tcx>,
    owner: LocalDefId,
}

impl<'tcx> M<'tcx> {
    fn place(&self, p: &Place<'tcx>) -> J {
        let mut pr = Vec::new();
        for e in p.projection.iter() {
            pr.push(match e {
                ProjectionElem::Deref => J::s("*"),
                ProjectionElem::Field(f, _) => obj! {"f": J::Int(f.as_u32() as i128)},
                ProjectionElem::Index(l) => obj! {"i": J::Int(l.as_u32() as i128)},
                ProjectionElem::Downcast(name, idx) => {
                    obj! {"d": J::s(name.map_or(String::new(), |n| n.to_string())), "vi": J::Int(idx.as_u32() as i128)}
                }
                ProjectionElem::ConstantIndex { offset, from_end, .. } => {
                    obj! {"ci": J::Int(offset as i128), "from_end": J::Bool(from_end)}
                }
                ProjectionElem::Subslice { from, to, from_end } => {
                    obj! {"sub": J::Arr(vec![J::Int(from as i128), J::Int(to as i128)]), "from_end": J::Bool(from_end)}
                }
                other => J::s(format!("{other:?}")),
            });
        }
        obj! {"l": J::Int(p.local.as_u32() as i128), "pr": if pr.is_empty() { J::Null } else { J::Arr(pr) }}
    }

    fn fn_info(&self, did: DefId, args: ty::GenericArgsRef<'tcx>) -> Vec<(&'static str, J)> {
        let mut v = vec![("fn", J::s(def_str(self.tcx, did)))];
        let gargs: Vec<J> = args
            .iter()
            .map(|a| J::s(trunc(ty::print::with_no_trimmed_paths!(format!("{a}")), 300)))
            .collect();
        v.push(("gargs", J::Arr(gargs)));
        v.push(("crate", J::s(self.tcx.crate_name(did.krate).to_string())));
        if let Some(assoc) = self.tcx.opt_associated_item(did) {
            let c = assoc.container_id(self.tcx);
            if matches!(self.tcx.def_kind(c), DefKind::Trait) {
                v.push(("trait", J::s(def_str(self.tcx, c))));
            }
        }
        if matches!(self.tcx.def_kind(did), DefKind::AssocFn | DefKind::Fn) {
            let env = ty::TypingEnv::post_analysis(self.tcx, self.owner);
            let args = self.tcx.erase_and_anonymize_regions(args);
            if let Ok(Some(inst)) = ty::Instance::try_resolve(self.tcx, env, did, args) {
                let rd = inst.def_id();
                if rd != did {
                    v.push(("res", J::s(def_str(self.tcx, rd))));
                    v.push(("res_crate", J::s(self.tcx.crate_name(rd.krate).to_string())));
                }
                if let ty::InstanceKind::Virtual(..) = inst.def {
                    v.push(("virtual", J::Bool(true)));
                }
            }
        }
        v
    }

    fn constant(&self, c: &ConstOperand<'tcx>) -> J {
        let ty = c.const_.ty();
        let mut fields: Vec<(&'static str, J)> = vec![("ty", J::s(ty_str(ty)))];
        match ty.kind() {
            ty::FnDef(did, args) => fields.extend(self.fn_info(*did, args)),
            _ => {
                let env = ty::TypingEnv::post_analysis(self.tcx, self.owner);
                if ty.is_integral() || ty.is_bool() || ty.is_char() {
                    if let Some(s) = c.const_.try_eval_scalar_int(self.tcx, env) {
                        let size = s.size();
                        let v: i128 = if ty.is_signed() { s.to_int(size) } else { s.to_uint(size) as i128 };
                        fields.push(("v", J::Int(v)));
                    }
                } else if ty.is_floating_point() {
                    if let Some(s) = c.const_.try_eval_scalar_int(self.tcx, env) {
                        let size = s.size();
                        let bits = s.to_uint(size);
                        let f = if size.bytes() == 8 { f64::from_bits(bits as u64) } else if size.bytes() == 4 { f32::from_bits(bits as u32) as f64 } else { f64::NAN };
                        fields.push(("fv", J::s(format!("{f:?}"))));
                    }
                } else {
                    fields.push(("txt", J::s(trunc(ty::print::with_no_trimmed_paths!(format!("{}", c.const_)), 200))));
                    if let Const::Unevaluated(u, _) = c.const_ {
                        fields.push(("unevaluated", J::s(def_str(self.tcx, u.def))));
                        if let Some(p) = u.promoted {
                            fields.push(("promoted", J::Int(p.as_u32() as i128)));
                        }
                    }
                }
            }
        }
        J::Obj(fields)
    }

    fn operand(&self, o: &Operand<'tcx>) -> J {
        match o {
            Operand::Copy(p) => obj! {"c": self.place(p)},
            Operand::Move(p) => obj! {"m": self.place(p)},
            Operand::Constant(c) => obj! {"k": self.constant(c)},
            #[allow(unreachable_patterns)]
            other => obj! {"other": J::s(format!("{other:?}"))},
        }
    }

    fn rvalue(&self, body: &Body<'tcx>, r: &Rvalue<'tcx>) -> J {
        match r {
            Rvalue::Use(o, _) => obj! {"k": J::s("Use"), "o": self.operand(o)},
            Rvalue::Repeat(o, _) => obj! {"k": J::s("Repeat"), "o": self.operand(o)},
            Rvalue::Ref(_, bk, p) => obj! {"k": J::s("Ref"), "p": self.place(p), "mut": J::Bool(matches!(bk, BorrowKind::Mut{..}))},
            Rvalue::ThreadLocalRef(d) => obj! {"k": J::s("ThreadLocalRef"), "def": J::s(def_str(self.tcx, *d))},
            Rvalue::RawPtr(_, p) => obj! {"k": J::s("RawPtr"), "p": self.place(p)},
            Rvalue::Cast(ck, o, ty) => {
                let from = o.ty(&body.local_decls, self.tcx);
                let ck_s = match ck {
                    CastKind::PointerCoercion(pc, _) => format!("PointerCoercion:{pc:?}"),
                    other => format!("{other:?}"),
                };
                obj! {"k": J::s("Cast"), "ck": J::s(ck_s), "o": self.operand(o), "ty": J::s(ty_str(*ty)), "from": J::s(ty_str(from))}
            }
            Rvalue::BinaryOp(op, ab) => {
                obj! {"k": J::s("Bin"), "op": J::s(format!("{op:?}")), "a": self.operand(&ab.0), "b": self.operand(&ab.1),
                      "aty": J::s(ty_str(ab.0.ty(&body.local_decls, self.tcx)))}
            }
            Rvalue::UnaryOp(op, a) => {
                obj! {"k": J::s("Un"), "op": J::s(format!("{op:?}")), "a": self.operand(a),
                      "aty": J::s(ty_str(a.ty(&body.local_decls, self.tcx)))}
            }
            Rvalue::Discriminant(p) => obj! {"k": J::s("Discr"), "p": self.place(p),
                      "pty": J::s(ty_str(p.ty(&body.local_decls, self.tcx).ty))},
            Rvalue::Aggregate(ak, ops) => {
                let (aks, variant) = match &**ak {
                    AggregateKind::Array(_) => ("Array".to_string(), J::Null),
                    AggregateKind::Tuple => ("Tuple".to_string(), J::Null),
                    AggregateKind::Adt(did, vi, _, _, _) => {
                        let adt = self.tcx.adt_def(*did);
                        let v = adt.variant(*vi);
                        (format!("Adt:{}", def_str(self.tcx, *did)), J::s(v.name.to_string()))
                    }
                    AggregateKind::Closure(did, _) => (format!("Closure:{}", def_str(self.tcx, *did)), J::Null),
                    other => (trunc(format!("{other:?}"), 100), J::Null),
                };
                obj! {"k": J::s("Agg"), "ak": J::s(aks), "variant": variant, "ops": J::Arr(ops.iter().map(|o| self.operand(o)).collect())}
            }
            Rvalue::CopyForDeref(p) => obj! {"k": J::s("Use"), "o": obj!{"c": self.place(p)}},
            #[allow(unreachable_patterns)]
            other => obj! {"k": J::s("Other"), "txt": J::s(trunc(format!("{other:?}"), 200))},
        }
    }

    fn body(&self, body: &Body<'tcx>) -> J {
        let tcx = self.tcx;
        // user variable names
        let mut names: Vec<Option<String>> = vec![None; body.local_decls.len()];
        for vdi in &body.var_debug_info {
            if let VarDebugInfoContents::Place(p) = &vdi.value {
                if p.projection.is_empty() {
                    names[p.local.as_usize()] = Some(vdi.name.to_string());
                }
            }
        }
        let locals: Vec<J> = body
            .local_decls
            .iter_enumerated()
            .map(|(l, d)| obj! {"ty": J::s(ty_str(d.ty)), "name": J::opt(names[l.as_usize()].clone().map(J::s))})
            .collect();
        let mut bbs = Vec::new();
        for (_bb, data) in body.basic_blocks.iter_enumerated() {
            let mut st = Vec::new();
            for s in &data.statements {
                match &s.kind {
                    StatementKind::Assign(b) => {
                        let (p, r) = &**b;
                        st.push(obj! {"k": J::s("A"), "p": self.place(p), "r": self.rvalue(body, r),
                                      "sp": J::s(span_str(tcx, s.source_info.span)),
                                      "exp": J::opt(expn_str(s.source_info.span).map(J::s))});
                    }
                    StatementKind::SetDiscriminant { place, variant_index } => {
                        st.push(obj! {"k": J::s("SetDiscr"), "p": self.place(place), "vi": J::Int(variant_index.as_u32() as i128)});
                    }
                    StatementKind::Intrinsic(i) => {
                        st.push(obj! {"k": J::s("Intrinsic"), "txt": J::s(trunc(format!("{i:?}"), 200))});
                    }
                    _ => {}
                }
            }
            let term = data.terminator();
            let sp = J::s(span_str(tcx, term.source_info.span));
            let exp = J::opt(expn_str(term.source_info.span).map(J::s));
            let bbj = |b: &BasicBlock| J::Int(b.as_u32() as i128);
            let unw = |u: &UnwindAction| match u {
                UnwindAction::Cleanup(b) => J::Int(b.as_u32() as i128),
                _ => J::Null,
            };
            let t = match &term.kind {
                TerminatorKind::Goto { target } => obj! {"k": J::s("Goto"), "t": bbj(target)},
                TerminatorKind::SwitchInt { discr, targets } => {
                    let ts: Vec<J> = targets.iter().map(|(v, b)| J::Arr(vec![J::Int(v as i128), bbj(&b)])).collect();
                    obj! {"k": J::s("Switch"), "o": self.operand(discr), "ts": J::Arr(ts), "else": bbj(&targets.otherwise()),
                          "oty": J::s(ty_str(discr.ty(&body.local_decls, tcx)))}
                }
                TerminatorKind::UnwindResume => obj! {"k": J::s("Resume")},
                TerminatorKind::UnwindTerminate(_) => obj! {"k": J::s("Terminate")},
                TerminatorKind::Return => obj! {"k": J::s("Return")},
                TerminatorKind::Unreachable => obj! {"k": J::s("Unreachable")},
                TerminatorKind::Drop { place, target, unwind, .. } => {
                    obj! {"k": J::s("Drop"), "p": self.place(place), "t": bbj(target), "u": unw(unwind),
                          "pty": J::s(ty_str(place.ty(&body.local_decls, tcx).ty))}
                }
                TerminatorKind::Call { func, args, destination, target, unwind, fn_span, .. } => {
                    let fty = func.ty(&body.local_decls, tcx);
                    let mut f: Vec<(&'static str, J)> = vec![("k", J::s("Call"))];
                    match fty.kind() {
                        ty::FnDef(did, ga) => f.extend(self.fn_info(*did, ga)),
                        _ => {
                            f.push(("indirect", self.operand(func)));
                            f.push(("fty", J::s(ty_str(fty))));
                        }
                    }
                    f.push(("args", J::Arr(args.iter().map(|a| self.operand(&a.node)).collect())));
                    f.push(("argtys", J::Arr(args.iter().map(|a| J::s(ty_str(a.node.ty(&body.local_decls, tcx)))).collect())));
                    f.push(("d", self.place(destination)));
                    f.push(("t", J::opt(target.as_ref().map(bbj))));
                    f.push(("u", unw(unwind)));
                    f.push(("fsp", J::s(span_str(tcx, *fn_span))));
                    J::Obj(f)
                }
                TerminatorKind::TailCall { func, args, .. } => {
                    obj! {"k": J::s("TailCall"), "f": self.operand(func), "args": J::Arr(args.iter().map(|a| self.operand(&a.node)).collect())}
                }
                TerminatorKind::Assert { cond, expected, msg, target, unwind } => {
                    let m = match &**msg {
                        AssertKind::BoundsCheck { .. } => "BoundsCheck".to_string(),
                        AssertKind::Overflow(op, _, _) => format!("Overflow({op:?})"),
                        AssertKind::OverflowNeg(_) => "OverflowNeg".to_string(),
                        AssertKind::DivisionByZero(_) => "DivisionByZero".to_string(),
                        AssertKind::RemainderByZero(_) => "RemainderByZero".to_string(),
                        AssertKind::MisalignedPointerDereference { .. } => "MisalignedPointerDereference".to_string(),
                        AssertKind::NullPointerDereference => "NullPointerDereference".to_string(),
                        other => trunc(format!("{other:?}"), 60),
                    };
                    obj! {"k": J::s("Assert"), "c": self.operand(cond), "expected": J::Bool(*expected), "msg": J::s(m), "t": bbj(target), "u": unw(unwind)}
                }
                TerminatorKind::InlineAsm { targets, .. } => {
                    obj! {"k": J::s("InlineAsm"), "ts": J::Arr(targets.iter().map(bbj).collect())}
                }
                TerminatorKind::FalseEdge { real_target, .. } => obj! {"k": J::s("Goto"), "t": bbj(real_target)},
                TerminatorKind::FalseUnwind { real_target, .. } => obj! {"k": J::s("Goto"), "t": bbj(real_target)},
                other => obj! {"k": J::s("Other"), "txt": J::s(trunc(format!("{other:?}"), 100))},
            };
            let mut t = t;
            if let J::Obj(f) = &mut t {
                f.push(("sp", sp));
                f.push(("exp", exp));
                if let Some(c) = expn_chain(term.source_info.span) {
                    f.push(("expc", J::s(c)));
                }
            }
            bbs.push(obj! {"st": J::Arr(st), "t": t, "cleanup": if data.is_cleanup { J::Bool(true) } else { J::Null }});
        }
        obj! {"argc": J::Int(body.arg_count as i128), "locals": J::Arr(locals), "bbs": J::Arr(bbs)}
    }
}

pub fn dump_mir(tcx: TyCtxt<'_>) -> J {
    let mut out = Vec::new();
    for owner in tcx.hir_body_owners() {
        let kind = tcx.def_kind(owner);
        // constants and statics have no runtime MIR worth analysing (their values are in the HIR dump)
        if !matches!(kind, DefKind::Fn | DefKind::AssocFn | DefKind::Closure) {
            continue;
        }
        if tcx.typeck(owner).tainted_by_errors.is_some() {
            continue;
        }
        let m = M { tcx, owner };
        let body = tcx.optimized_mir(owner.to_def_id());
        let mut j = m.body(body);
        let promoted = tcx.promoted_mir(owner.to_def_id());
        let pj: Vec<J> = promoted.iter().map(|b| m.body(b)).collect();
        let parent = if kind == DefKind::Closure {
            J::s(def_str(tcx, tcx.typeck_root_def_id(owner.to_def_id())))
        } else {
            J::Null
        };
        if let J::Obj(f) = &mut j {
            f.insert(0, ("def", J::s(def_str(tcx, owner.to_def_id()))));
            f.push(("kind", J::s(format!("{kind:?}"))));
            f.push(("sp", J::s(span_str(tcx, tcx.def_span(owner)))));
            f.push(("root", parent));
            f.push(("promoted", J::Arr(pj)));
        }
        out.push(j);
    }
    J::Arr(out)
}
