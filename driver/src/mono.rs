//! Pass M: whole-program monomorphic call graph of the binary crate, computed like rustc's
//! mono collector (rustc_monomorphize/src/collector.rs) but (a) descending into upstream
//! non-generic functions too (their MIR is present thanks to -Zalways-encode-mir) and
//! (b) recording, instead of mono items, a graph: nodes = instances, edges = direct calls /
//! drops / reifications / vtable entries, plus the indirect and virtual call sites and the
//! tables needed to resolve them (fn-pointer signatures, unsizing sites). The resolution
//! fixpoint and every rule over the graph are done in Python.
use crate::hir_dump::{span_str, trunc};
use crate::json::J;
use crate::obj;
use rustc_hir::LangItem;
use rustc_hir::def::DefKind;
use rustc_middle::mir::interpret::{GlobalAlloc, Scalar};
use rustc_middle::mir::visit::Visitor as MirVisitor;
use rustc_middle::mir::{self, Location};
use rustc_middle::traits;
use rustc_middle::ty::adjustment::{CustomCoerceUnsized, PointerCoercion};
use rustc_middle::ty::{self, Instance, InstanceKind, Ty, TyCtxt, TypeVisitableExt, VtblEntry};
use rustc_span::{DUMMY_SP, Span};
use std::collections::{HashMap, HashSet, VecDeque};

fn env<'tcx>() -> ty::TypingEnv<'tcx> {
    ty::TypingEnv::fully_monomorphized()
}

#[derive(Default)]
struct Graph<'tcx> {
    ids: HashMap<Instance<'tcx>, usize>,
    nodes: Vec<Instance<'tcx>>,
    queue: VecDeque<usize>,
    /// (src, dst, kind, span)
    edges: Vec<(usize, usize, &'static str, Span)>,
    /// (src, signature key, span)
    indirect: Vec<(usize, String, Span)>,
    /// (src, dyn key, slot, trait method, span); slot == usize::MAX means drop_in_place
    virt: Vec<(usize, String, usize, String, Span)>,
    /// (src, signature key, dst)
    reified: Vec<(usize, String, usize, &'static str)>,
    /// (src, dyn key, concrete type, slots -> node)
    unsize: Vec<(usize, String, String, Vec<(usize, usize)>)>,
    unsize_seen: HashSet<(Ty<'tcx>, Ty<'tcx>)>,
    /// (src, static def path)
    statics: Vec<(usize, String, bool)>,
    alloc_memo: HashMap<AllocId, std::rc::Rc<AllocSummary<'tcx>>>,
    asm: HashMap<usize, Vec<String>>,
    notes: Vec<String>,
}

fn sig_key<'tcx>(tcx: TyCtxt<'tcx>, sig: ty::PolyFnSig<'tcx>) -> String {
    let sig = tcx.instantiate_bound_regions_with_erased(sig);
    let sig = tcx.erase_and_anonymize_regions(sig);
    let sig = tcx.try_normalize_erasing_regions(env(), ty::Unnormalized::new_wip(sig)).unwrap_or(sig);
    if sig.abi() == rustc_abi::ExternAbi::RustCall && sig.inputs().len() == 2 {
        // `<F as FnOnce<Args>>::call_once` shims stored as plain function pointers:
        // the callable signature is fn(Args...) -> R
        if let ty::Tuple(elems) = sig.inputs()[1].kind() {
            let ins: Vec<String> = elems.iter().map(|t| format!("{t}")).collect();
            return format!("fn({}) -> {}", ins.join(", "), sig.output());
        }
    }
    let ins: Vec<String> = sig.inputs().iter().map(|t| format!("{t}")).collect();
    format!("{}fn({}{}) -> {}", if sig.abi() == rustc_abi::ExternAbi::Rust { String::new() } else { format!("extern {:?} ", sig.abi()) }, ins.join(", "), if sig.c_variadic() { ", ..." } else { "" }, sig.output())
}

fn dyn_key<'tcx>(tcx: TyCtxt<'tcx>, ty: Ty<'tcx>) -> String {
    // principal trait (with its generic args and projection bounds), regions erased, auto traits dropped
    if let ty::Dynamic(preds, _) = ty.kind() {
        let mut parts = Vec::new();
        for p in preds.iter() {
            let p = tcx.instantiate_bound_regions_with_erased(p);
            let p = tcx.erase_and_anonymize_regions(p);
            match p {
                ty::ExistentialPredicate::Trait(t) => parts.push(format!("{t:?}")),
                ty::ExistentialPredicate::Projection(pr) => parts.push(format!("{pr:?}")),
                ty::ExistentialPredicate::AutoTrait(_) => {}
            }
        }
        if parts.is_empty() {
            return "dyn <auto-only>".into();
        }
        format!("dyn {}", parts.join(" + "))
    } else {
        format!("{ty}")
    }
}

struct Walker<'a, 'tcx> {
    tcx: TyCtxt<'tcx>,
    g: &'a mut Graph<'tcx>,
    me: usize,
    instance: Instance<'tcx>,
    body: &'tcx mir::Body<'tcx>,
}

impl<'tcx> Graph<'tcx> {
    fn node(&mut self, inst: Instance<'tcx>) -> usize {
        if let Some(&i) = self.ids.get(&inst) {
            return i;
        }
        let i = self.nodes.len();
        self.ids.insert(inst, i);
        self.nodes.push(inst);
        self.queue.push_back(i);
        i
    }
}

fn custom_coerce_unsize_info<'tcx>(tcx: TyCtxt<'tcx>, source_ty: Ty<'tcx>, target_ty: Ty<'tcx>) -> Option<CustomCoerceUnsized> {
    let trait_ref = ty::TraitRef::new(tcx, tcx.require_lang_item(LangItem::CoerceUnsized, DUMMY_SP), [source_ty, target_ty]);
    match tcx.codegen_select_candidate(env().as_query_input(trait_ref)) {
        Ok(traits::ImplSource::UserDefined(traits::ImplSourceUserDefinedData { impl_def_id, .. })) => {
            tcx.coerce_unsized_info(*impl_def_id).ok()?.custom_kind
        }
        _ => None,
    }
}

fn find_tails_for_unsizing<'tcx>(tcx: TyCtxt<'tcx>, source_ty: Ty<'tcx>, target_ty: Ty<'tcx>) -> Option<(Ty<'tcx>, Ty<'tcx>)> {
    match (source_ty.kind(), target_ty.kind()) {
        (&ty::Pat(source, _), &ty::Pat(target, _)) => find_tails_for_unsizing(tcx, source, target),
        (&ty::Ref(_, a, _), &ty::Ref(_, b, _) | &ty::RawPtr(b, _)) | (&ty::RawPtr(a, _), &ty::RawPtr(b, _)) => {
            Some(tcx.struct_lockstep_tails_for_codegen(a, b, env()))
        }
        (_, _) if source_ty.boxed_ty().is_some() && target_ty.boxed_ty().is_some() => {
            Some(tcx.struct_lockstep_tails_for_codegen(source_ty.boxed_ty().unwrap(), target_ty.boxed_ty().unwrap(), env()))
        }
        (&ty::Adt(sdef, sargs), &ty::Adt(tdef, targs)) => {
            if sdef != tdef {
                return None;
            }
            let CustomCoerceUnsized::Struct(idx) = custom_coerce_unsize_info(tcx, source_ty, target_ty)?;
            let f = &sdef.non_enum_variant().fields[idx];
            let sf = tcx.normalize_erasing_regions(env(), ty::Unnormalized::new_wip(f.ty(tcx, sargs)));
            let tf = tcx.normalize_erasing_regions(env(), ty::Unnormalized::new_wip(f.ty(tcx, targs)));
            find_tails_for_unsizing(tcx, sf, tf)
        }
        _ => None,
    }
}

impl<'a, 'tcx> Walker<'a, 'tcx> {
    fn mono<T: ty::TypeFoldable<TyCtxt<'tcx>>>(&self, v: T) -> T {
        self.instance.instantiate_mir_and_normalize_erasing_regions(self.tcx, env(), ty::EarlyBinder::bind(v))
    }

    fn use_instance(&mut self, inst: Instance<'tcx>, kind: &'static str, span: Span) -> Option<usize> {
        let tcx = self.tcx;
        match inst.def {
            InstanceKind::Virtual(def_id, idx) => {
                let self_ty = inst.args.type_at(0);
                let key = dyn_key(tcx, self_ty);
                self.g.virt.push((self.me, key, idx, tcx.def_path_str(def_id), span));
                None
            }
            InstanceKind::DropGlue(_, None) => None,
            InstanceKind::DropGlue(_, Some(t)) if matches!(t.kind(), ty::Dynamic(..)) => {
                let key = dyn_key(tcx, t);
                self.g.virt.push((self.me, key, usize::MAX, "drop_in_place".into(), span));
                None
            }
            InstanceKind::Intrinsic(def_id) => {
                let n = self.g.node(inst);
                self.g.edges.push((self.me, n, kind, span));
                if let Some(intr) = tcx.intrinsic(def_id) {
                    if !intr.must_be_overridden && tcx.is_mir_available(def_id) {
                        let fb = Instance::new_raw(def_id, inst.args);
                        let m = self.g.node(fb);
                        self.g.edges.push((n, m, "fallback", span));
                    }
                }
                Some(n)
            }
            _ => {
                let n = self.g.node(inst);
                self.g.edges.push((self.me, n, kind, span));
                Some(n)
            }
        }
    }

    fn fn_use(&mut self, fty: Ty<'tcx>, direct: bool, span: Span, kind: &'static str) -> Option<usize> {
        if let ty::FnDef(def_id, args) = *fty.kind() {
            let inst = if direct {
                Instance::expect_resolve(self.tcx, env(), def_id, args, span)
            } else {
                Instance::resolve_for_fn_ptr(self.tcx, env(), def_id, args)?
            };
            return self.use_instance(inst, kind, span);
        }
        None
    }

    fn drop_use(&mut self, ty: Ty<'tcx>, span: Span, kind: &'static str) -> Option<usize> {
        let inst = Instance::resolve_drop_in_place(self.tcx, ty);
        self.use_instance(inst, kind, span)
    }

    fn vtable(&mut self, dyn_ty: Ty<'tcx>, impl_ty: Ty<'tcx>, span: Span) {
        let tcx = self.tcx;
        if !self.g.unsize_seen.insert((dyn_ty, impl_ty)) {
            // still record that this function performs the cast (cheap)
        }
        let ty::Dynamic(preds, ..) = dyn_ty.kind() else { return };
        let mut slots = Vec::new();
        if let Some(principal) = preds.principal() {
            let trait_ref = tcx.instantiate_bound_regions_with_erased(principal.with_self_ty(tcx, impl_ty));
            if trait_ref.has_escaping_bound_vars() {
                self.g.notes.push(format!("escaping bound vars in vtable trait ref {trait_ref:?}"));
                return;
            }
            let entries = tcx.vtable_entries(trait_ref);
            for (i, e) in entries.iter().enumerate() {
                if let VtblEntry::Method(inst) = e {
                    if let Some(n) = self.use_instance(*inst, "vtable", span) {
                        slots.push((i, n));
                    }
                }
            }
        }
        if impl_ty.needs_drop(tcx, env()) {
            if let Some(n) = self.drop_use(impl_ty, span, "vtable") {
                slots.push((usize::MAX, n));
            }
        }
        self.g.unsize.push((self.me, dyn_key(tcx, dyn_ty), format!("{impl_ty}"), slots));
    }

    fn alloc_summary(&mut self, top: AllocId) -> std::rc::Rc<AllocSummary<'tcx>> {
        if let Some(s) = self.g.alloc_memo.get(&top) {
            return s.clone();
        }
        let tcx = self.tcx;
        let mut sum = AllocSummary::default();
        let mut seen: HashSet<AllocId> = HashSet::new();
        let mut stack = vec![top];
        while let Some(id) = stack.pop() {
            if !seen.insert(id) {
                continue;
            }
            match tcx.global_alloc(id) {
                GlobalAlloc::Static(def_id) => {
                    sum.statics.push((def_id, tcx.is_mutable_static(def_id)));
                    if !tcx.is_foreign_item(def_id) {
                        if let Ok(a) = tcx.eval_static_initializer(def_id) {
                            stack.extend(a.inner().provenance().ptrs().values().map(|p| p.alloc_id()));
                        }
                    }
                }
                GlobalAlloc::Memory(a) => {
                    stack.extend(a.inner().provenance().ptrs().values().map(|p| p.alloc_id()));
                }
                GlobalAlloc::Function { instance, .. } => sum.fns.push(instance),
                GlobalAlloc::VTable(ty, dyn_ty) => sum.vtables.push((ty, dyn_ty)),
                GlobalAlloc::TypeId { .. } => {}
            }
        }
        let rc = std::rc::Rc::new(sum);
        self.g.alloc_memo.insert(top, rc.clone());
        rc
    }

    fn use_alloc(&mut self, id: AllocId, span: Span) {
        let tcx = self.tcx;
        let sum = self.alloc_summary(id);
        for inst in &sum.fns {
            if let Some(n) = self.use_instance(*inst, "constfn", span) {
                let fty = inst.ty(tcx, env());
                if fty.is_fn() {
                    let key = sig_key(tcx, fty.fn_sig(tcx));
                    self.g.reified.push((self.me, key, n, "const"));
                } else if let ty::Closure(_, cargs) = fty.kind() {
                    let sig = tcx.signature_unclosure(cargs.as_closure().sig(), rustc_hir::Safety::Safe);
                    self.g.reified.push((self.me, sig_key(tcx, sig), n, "const"));
                } else {
                    self.g.notes.push(format!("function in constant with non-fn type {fty}"));
                }
            }
        }
        for (d, m) in &sum.statics {
            self.g.statics.push((self.me, tcx.def_path_str(*d), *m));
        }
        for (ty, dyn_ty) in &sum.vtables {
            let d = Ty::new_dynamic(tcx, *dyn_ty, tcx.lifetimes.re_erased);
            self.vtable(d, *ty, span);
        }
    }

    fn const_value(&mut self, v: mir::ConstValue, span: Span) {
        match v {
            mir::ConstValue::Scalar(Scalar::Ptr(ptr, _)) => self.use_alloc(ptr.provenance.alloc_id(), span),
            mir::ConstValue::Indirect { alloc_id, .. } | mir::ConstValue::Slice { alloc_id, .. } => self.use_alloc(alloc_id, span),
            _ => {}
        }
    }
}

impl<'a, 'tcx> MirVisitor<'tcx> for Walker<'a, 'tcx> {
    fn visit_rvalue(&mut self, rvalue: &mir::Rvalue<'tcx>, location: Location) {
        let span = self.body.source_info(location).span;
        let tcx = self.tcx;
        match *rvalue {
            mir::Rvalue::Cast(mir::CastKind::PointerCoercion(PointerCoercion::Unsize, _), ref operand, target_ty) => {
                let source_ty = self.mono(operand.ty(self.body, tcx));
                let target_ty = self.mono(target_ty);
                if let Some((s, t)) = find_tails_for_unsizing(tcx, source_ty, target_ty) {
                    if t.is_trait() && !s.is_trait() {
                        self.vtable(t, s, span);
                    }
                } else {
                    self.g.notes.push(format!("unsizing not understood: {source_ty} -> {target_ty}"));
                }
            }
            mir::Rvalue::Cast(mir::CastKind::PointerCoercion(PointerCoercion::ReifyFnPointer(_), _), ref operand, target_ty) => {
                let fn_ty = self.mono(operand.ty(self.body, tcx));
                let target_ty = self.mono(target_ty);
                if let Some(n) = self.fn_use(fn_ty, false, span, "reify") {
                    if target_ty.is_fn_ptr() {
                        self.g.reified.push((self.me, sig_key(tcx, target_ty.fn_sig(tcx)), n, "reify"));
                    }
                }
            }
            mir::Rvalue::Cast(mir::CastKind::PointerCoercion(PointerCoercion::ClosureFnPointer(_), _), ref operand, target_ty) => {
                let source_ty = self.mono(operand.ty(self.body, tcx));
                let target_ty = self.mono(target_ty);
                if let ty::Closure(def_id, args) = *source_ty.kind() {
                    let inst = Instance::resolve_closure(tcx, def_id, args, ty::ClosureKind::FnOnce);
                    if let Some(n) = self.use_instance(inst, "reify", span) {
                        if target_ty.is_fn_ptr() {
                            self.g.reified.push((self.me, sig_key(tcx, target_ty.fn_sig(tcx)), n, "closure"));
                        }
                    }
                }
            }
            mir::Rvalue::ThreadLocalRef(def_id) => {
                self.g.statics.push((self.me, format!("thread_local:{}", tcx.def_path_str(def_id)), tcx.is_mutable_static(def_id)));
                if !tcx.is_foreign_item(def_id) {
                    if let Ok(a) = tcx.eval_static_initializer(def_id) {
                        let ptrs: Vec<_> = a.inner().provenance().ptrs().values().map(|p| p.alloc_id()).collect();
                        for p in ptrs {
                            self.use_alloc(p, span);
                        }
                    }
                }
            }
            _ => {}
        }
        self.super_rvalue(rvalue, location);
    }

    fn visit_const_operand(&mut self, constant: &mir::ConstOperand<'tcx>, _location: Location) {
        let c = self.mono(constant.const_);
        if let Ok(v) = c.eval(self.tcx, env(), constant.span) {
            self.const_value(v, constant.span);
        }
    }

    fn visit_terminator(&mut self, terminator: &mir::Terminator<'tcx>, location: Location) {
        let span = self.body.source_info(location).span;
        let tcx = self.tcx;
        match terminator.kind {
            mir::TerminatorKind::Call { ref func, ref args, .. } | mir::TerminatorKind::TailCall { ref func, ref args, .. } => {
                let callee_ty = self.mono(func.ty(self.body, tcx));
                match callee_ty.kind() {
                    ty::FnDef(def_id, _) => {
                        let is_intrinsic = tcx.intrinsic(*def_id).is_some();
                        self.fn_use(callee_ty, true, span, "call");
                        if is_intrinsic {
                            // e.g. const_eval_select(args, const_fn, runtime_fn): function items passed
                            // to an intrinsic are treated as called
                            for a in args.iter() {
                                let aty = self.mono(a.node.ty(self.body, tcx));
                                match aty.kind() {
                                    ty::FnDef(..) => {
                                        self.fn_use(aty, true, span, "call");
                                    }
                                    ty::Closure(def_id, cargs) => {
                                        let inst = Instance::resolve_closure(tcx, *def_id, cargs, ty::ClosureKind::FnOnce);
                                        self.use_instance(inst, "call", span);
                                    }
                                    _ => {}
                                }
                            }
                        }
                    }
                    ty::FnPtr(..) => {
                        let key = sig_key(tcx, callee_ty.fn_sig(tcx));
                        self.g.indirect.push((self.me, key, span));
                    }
                    _ => self.g.notes.push(format!("call of non-fn type {callee_ty}")),
                }
            }
            mir::TerminatorKind::Drop { ref place, .. } => {
                let ty = self.mono(place.ty(self.body, tcx).ty);
                self.drop_use(ty, span, "drop");
            }
            mir::TerminatorKind::InlineAsm { ref operands, template, .. } => {
                let text: String = template.iter().map(|p| format!("{p}")).collect::<Vec<_>>().join("");
                self.g.asm.entry(self.me).or_default().push(text);
                for op in operands {
                    match *op {
                        mir::InlineAsmOperand::SymFn { ref value } => {
                            let fn_ty = self.mono(value.const_.ty());
                            self.fn_use(fn_ty, false, span, "reify");
                        }
                        mir::InlineAsmOperand::SymStatic { def_id } => {
                            self.g.statics.push((self.me, tcx.def_path_str(def_id), tcx.is_mutable_static(def_id)));
                        }
                        _ => {}
                    }
                }
            }
            _ => {}
        }
        self.super_terminator(terminator, location);
    }
}

#[derive(Default)]
struct AllocSummary<'tcx> {
    fns: Vec<Instance<'tcx>>,
    statics: Vec<(rustc_hir::def_id::DefId, bool)>,
    vtables: Vec<(Ty<'tcx>, &'tcx ty::List<ty::PolyExistentialPredicate<'tcx>>)>,
}

type AllocId = rustc_middle::mir::interpret::AllocId;

fn leaf_reason<'tcx>(tcx: TyCtxt<'tcx>, inst: Instance<'tcx>) -> Option<&'static str> {
    match inst.def {
        InstanceKind::Item(def_id) => {
            if tcx.is_foreign_item(def_id) {
                Some("foreign")
            } else if !tcx.is_mir_available(def_id) {
                Some("nomir")
            } else {
                None
            }
        }
        InstanceKind::Intrinsic(_) => Some("intrinsic"),
        InstanceKind::Virtual(..) => Some("virtual"),
        _ => None,
    }
}

pub fn run(tcx: TyCtxt<'_>) -> J {
    let t0 = std::time::Instant::now();
    let mut g = Graph::default();
    let Some((main_def, _)) = tcx.entry_fn(()) else { return J::Null };
    let main_inst = Instance::mono(tcx, main_def);
    g.node(main_inst);
    // std's runtime entry (lang_start) is generic over main's return type; add it so that the
    // runtime initialisation is part of R as well.
    if let Some(start) = tcx.lang_items().start_fn() {
        let main_ret = tcx.fn_sig(main_def).instantiate_identity().skip_norm_wip().output().skip_binder();
        let main_ret = tcx.erase_and_anonymize_regions(main_ret);
        let inst = Instance::expect_resolve(tcx, env(), start, tcx.mk_args(&[main_ret.into()]), DUMMY_SP);
        g.node(inst);
    }
    while let Some(me) = g.queue.pop_front() {
        let inst = g.nodes[me];
        if leaf_reason(tcx, inst).is_some() {
            continue;
        }
        let body = tcx.instance_mir(inst.def);
        let mut w = Walker { tcx, g: &mut g, me, instance: inst, body };
        for (bb, data) in mir::traversal::mono_reachable(body, tcx, inst) {
            w.visit_basic_block_data(bb, data);
        }
    }
    // ---- output
    let first_party = ["jaq_core", "jaq_std", "jaq_json", "jaq_fmts", "jaq_all", "jaq"];
    let mut nodes = Vec::new();
    for (i, inst) in g.nodes.iter().enumerate() {
        let def_id = inst.def_id();
        let krate = tcx.crate_name(def_id.krate).to_string();
        let kind = match inst.def {
            InstanceKind::Item(_) => "Item".to_string(),
            InstanceKind::Intrinsic(_) => "Intrinsic".into(),
            InstanceKind::DropGlue(_, t) => format!("DropGlue:{}", t.map_or("none".to_string(), |t| trunc(format!("{t}"), 300))),
            other => {
                let s = format!("{other:?}");
                s.split('(').next().unwrap_or("Shim").split(' ').next().unwrap_or("Shim").to_string()
            }
        };
        let dk = tcx.def_kind(def_id);
        let sp = if first_party.contains(&krate.as_str()) { J::s(span_str(tcx, tcx.def_span(def_id))) } else { J::Null };
        let parent = if matches!(dk, DefKind::Closure) { J::s(tcx.def_path_str(tcx.typeck_root_def_id(def_id))) } else { J::Null };
        nodes.push(obj! {
            "id": J::Int(i as i128),
            "name": J::s(trunc(format!("{inst}"), 600)),
            "def": J::s(tcx.def_path_str(def_id)),
            "crate": J::s(krate),
            "kind": J::s(kind),
            "dk": J::s(format!("{dk:?}")),
            "leaf": J::opt(leaf_reason(tcx, *inst).map(J::s)),
            "asm": g.asm.get(&i).map_or(J::Null, |v| J::Arr(v.iter().map(|s| J::s(trunc(s.clone(), 400))).collect())),
            "closure": inst.args.types().next().and_then(|t| match t.kind() {
                ty::Closure(d, _) => Some(J::s(tcx.def_path_str(*d))),
                ty::FnDef(d, _) => Some(J::s(format!("fn:{}", tcx.def_path_str(*d)))),
                _ => None,
            }).unwrap_or(J::Null),
            "sp": sp,
            "root": parent
        });
    }
    let fp_node: Vec<bool> = g.nodes.iter().map(|inst| first_party.contains(&tcx.crate_name(inst.def_id().krate).as_str())).collect();
    let spj = |src: usize, sp: Span| if fp_node[src] { J::s(span_str(tcx, sp)) } else { J::Null };
    let edges: Vec<J> = g.edges.iter().map(|(a, b, k, sp)| J::Arr(vec![J::Int(*a as i128), J::Int(*b as i128), J::s(*k), spj(*a, *sp)])).collect();
    let indirect: Vec<J> = g.indirect.iter().map(|(a, k, sp)| J::Arr(vec![J::Int(*a as i128), J::s(k.clone()), spj(*a, *sp)])).collect();
    let slot = |s: usize| if s == usize::MAX { J::Int(-1) } else { J::Int(s as i128) };
    let virt: Vec<J> = g.virt.iter().map(|(a, k, s, m, sp)| J::Arr(vec![J::Int(*a as i128), J::s(k.clone()), slot(*s), J::s(m.clone()), spj(*a, *sp)])).collect();
    let reified: Vec<J> = g.reified.iter().map(|(a, k, b, how)| J::Arr(vec![J::Int(*a as i128), J::s(k.clone()), J::Int(*b as i128), J::s(*how)])).collect();
    let unsize: Vec<J> = g
        .unsize
        .iter()
        .map(|(a, k, c, slots)| {
            J::Arr(vec![J::Int(*a as i128), J::s(k.clone()), J::s(trunc(c.clone(), 400)), J::Arr(slots.iter().map(|(s, n)| J::Arr(vec![slot(*s), J::Int(*n as i128)])).collect())])
        })
        .collect();
    let statics: Vec<J> = g.statics.iter().map(|(a, d, m)| J::Arr(vec![J::Int(*a as i128), J::s(d.clone()), J::Bool(*m)])).collect();
    eprintln!("jaqlint: mono graph {} nodes {} edges in {:?}", g.nodes.len(), g.edges.len(), t0.elapsed());
    obj! {
        "main": J::Int(0),
        "nodes": J::Arr(nodes), "edges": J::Arr(edges), "indirect": J::Arr(indirect), "virtual": J::Arr(virt),
        "reified": J::Arr(reified), "unsize": J::Arr(unsize), "statics": J::Arr(statics),
        "notes": J::Arr(g.notes.iter().map(|n| J::s(trunc(n.clone(), 300))).collect())
    }
}
